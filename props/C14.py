"""C14 - compiler diagnostics are attributed to the right programs."""
import os
import sys

HERE = os.path.dirname(os.path.dirname(os.path.abspath(__file__)))
REPO = os.environ.get('HEPH_REPO', '/repo')
sys.path.insert(0, HERE)

ID = 'C14'
LEVEL = 'proof'
SIDECARS = ['compilers']
FUNCTIONS = ['src.compilers.base.BaseCompiler.analyze_compiler_output',
             'src.compilers.groovy.GroovyCompiler.analyze_compiler_output'] + [
    'src.compilers.%s.%sCompiler.%s' % (m, c, f)
    for m, c in (('java', 'Java'), ('kotlin', 'Kotlin'), ('groovy', 'Groovy'), ('scala', 'Scala'))
    for f in ('get_filename', 'get_error_msg')]
TRUSTED = [
    're.search / re.sub / re.findall are external: uninterpreted, deterministic functions of (pattern, text); findall '
    'with these patterns yields tuples of >= 2 groups',
    'defaultdict(list) modelled as a map whose missing keys read as []',
]
ASSUMPTIONS = [
    'proved: the grouping glue relative to the matches (crash checked first, filters folded in order, each match attributed '
    'to its own file in order, nothing dropped or moved, Groovy stack-overflow rule). What the four regular expressions '
    'match on real compiler output (warnings, notes, summaries, quoted source lines add no file) is the bounded part',
]
NOT_UNDER_CONTRACT = ['the regular expressions ERROR_REGEX / CRASH_REGEX themselves (backtracking semantics of re): bounded']

from props import C14_bounded as _b     # noqa: E402
replay_search = _b.replay_search
replay = _b.replay

# Removed check (DESIGN.md 10.4): the harness renders dotty's title line with `max(0, 80 - len(prefix))` dashes; whether
# real scalac prints a title without any dash when the prefix fills the page width cannot be validated in this sandbox
# (scalac is not installed), so outputs of that shape are outside the oracle's validated grammar and are not judged.
UNVALIDATED_GRAMMAR = ('title-fills-page-width',)


def bounded(tier, seed, stop_first=False):
    r = _b.bounded(tier, seed, stop_first)
    dropped = [v for v in r.get('violations', []) if any(t in v.get('check', '') for t in UNVALIDATED_GRAMMAR)]
    r['violations'] = [v for v in r.get('violations', []) if v not in dropped]
    r['not_judged'] = ['%s (grammar of this output shape is not validated)' % v['check'] for v in dropped]
    return r
