"""C14 - compiler diagnostics are attributed to the right programs."""
import os
import sys

HERE = os.path.dirname(os.path.dirname(os.path.abspath(__file__)))
REPO = os.environ.get('HEPH_REPO', '/repo')
sys.path.insert(0, HERE)

ID = 'C14'
LEVEL = 'proof'
SIDECARS = ['compilers']
FUNCTIONS = ['src.compilers.base.BaseCompiler.analyze_compiler_output',
             'src.compilers.groovy.GroovyCompiler.analyze_compiler_output'] + [
    'src.compilers.%s.%sCompiler.%s' % (m, c, f)
    for m, c in (('java', 'Java'), ('kotlin', 'Kotlin'), ('groovy', 'Groovy'), ('scala', 'Scala'))
    for f in ('get_filename', 'get_error_msg')]
TRUSTED = [
    're.search / re.sub / re.findall are external: uninterpreted, deterministic functions of (pattern, text); findall '
    'with these patterns yields tuples of >= 2 groups',
    'defaultdict(list) modelled as a map whose missing keys read as []',
]
ASSUMPTIONS = [
    'proved: the grouping glue relative to the matches (crash checked first, filters folded in order, each match attributed '
    'to its own file in order, nothing dropped or moved, Groovy stack-overflow rule). What the four regular expressions '
    'match on real compiler output (warnings, notes, summaries, quoted source lines add no file) is the bounded part',
]
NOT_UNDER_CONTRACT = ['the regular expressions ERROR_REGEX / CRASH_REGEX themselves (backtracking semantics of re): bounded']

try:
    from props import C14_bounded as _b
    bounded = _b.bounded
    replay_search = _b.replay_search
    replay = _b.replay
except ImportError:
    pass
