"""C14 - compiler diagnostics are attributed to the right programs."""
import os
import sys

HERE = os.path.dirname(os.path.dirname(os.path.abspath(__file__)))
REPO = os.environ.get('HEPH_REPO', '/repo')
sys.path.insert(0, HERE)

ID = 'C14'
# modules whose functions must not keep state between calls (pyvc.statecheck.hidden_state_census, syntactic)
HIDDEN_STATE_MODULES = ['src.compilers.base', 'src.compilers.java', 'src.compilers.kotlin', 'src.compilers.groovy', 'src.compilers.scala']
LEVEL = 'proof'
SIDECARS = ['compilers', 'utils_io']
FUNCTIONS = ['src.utils.path2set',
             'src.compilers.base.BaseCompiler.analyze_compiler_output',
             'src.compilers.groovy.GroovyCompiler.analyze_compiler_output'] + [
    'src.compilers.%s.%sCompiler.%s' % (m, c, f)
    for m, c in (('java', 'Java'), ('kotlin', 'Kotlin'), ('groovy', 'Groovy'), ('scala', 'Scala'))
    for f in ('get_filename', 'get_error_msg')]
TRUSTED = [
    're.search / re.sub / re.findall are external: uninterpreted, deterministic functions of (pattern, text); findall '
    'with these patterns yields tuples of >= 2 groups',
    'defaultdict(list) modelled as a map whose missing keys read as []',
]
ASSUMPTIONS = [
    'proved: the grouping glue relative to the matches (crash checked first, filters folded in order, each match attributed '
    'to its own file in order, nothing dropped or moved, Groovy stack-overflow rule). What the four regular expressions '
    'match on real compiler output (warnings, notes, summaries, quoted source lines add no file) is the bounded part',
]
NOT_UNDER_CONTRACT = ['the regular expressions ERROR_REGEX / CRASH_REGEX themselves (backtracking semantics of re): bounded']

from props import C14_bounded as _b     # noqa: E402
replay_search = _b.replay_search


def replay(payload):
    fi = payload.get('failing_input') or {}
    if 'second-batch-on-same-compiler-object' in str(fi.get('check', '')):
        n, out = _same_compiler_twice_check()
        for v in out:
            print('%s: expected %r, got %r' % (v['check'], v.get('expected'), v.get('actual')))
        return not out
    if str(fi.get('check', '')).startswith('bounded[patterns-file'):
        n, out = _patterns_file_check()
        for v in out:
            print('%s: lines %r -> %r, expected %r' % (v['check'], v.get('lines'), v.get('actual'), v.get('expected')))
        return not out
    return _b.replay(payload)

# Removed check (DESIGN.md 10.4): the harness renders dotty's title line with `max(0, 80 - len(prefix))` dashes; whether
# real scalac prints a title without any dash when the prefix fills the page width cannot be validated in this sandbox
# (scalac is not installed), so outputs of that shape are outside the oracle's validated grammar and are not judged.
UNVALIDATED_GRAMMAR = ('title-fills-page-width',)


PATTERN_FILES = [
    ['.*error: incompatible types.*'], ['a b', '  leading and trailing  ', 'tab\tinside'], ['one', 'two', 'one'],
    ['', 'x', ''], [], ['.*Unresolved reference: (foo|bar).*', 'warning: \\[unchecked\\] .*'],
]


def _patterns_file_check():
    """bounded: the real utils.path2set on pattern files (patterns with blanks, duplicates, empty lines, no final newline,
    missing file) must return exactly the set of stripped lines -- the patterns analyze_compiler_output then deletes"""
    import tempfile
    for m in [k for k in sys.modules if k == 'src' or k.startswith('src.')]:
        del sys.modules[m]
    if REPO not in sys.path:
        sys.path.insert(0, REPO)
    from src import utils
    out, n = [], 0
    d = tempfile.mkdtemp(prefix='c14pat_')
    try:
        for i, lines in enumerate(PATTERN_FILES):
            for final_newline in (True, False):
                path = os.path.join(d, 'p%d_%d.txt' % (i, final_newline))
                with open(path, 'w') as f:
                    f.write('\n'.join(lines) + ('\n' if final_newline and lines else ''))
                n += 1
                got = utils.path2set(path)
                exp = {x.strip() for x in lines} if lines else set()
                if got != exp and not any(v['check'] == 'bounded[patterns-file]' for v in out):
                    out.append(dict(check='bounded[patterns-file]', function='src.utils.path2set', lines=lines,
                                    final_newline=final_newline, expected=sorted(exp), actual=sorted(map(str, got))))
        n += 1
        if utils.path2set(os.path.join(d, 'missing.txt')) != set():
            out.append(dict(check='bounded[patterns-file:missing]', function='src.utils.path2set', lines=None,
                            expected=[], actual='non-empty'))
    finally:
        import shutil
        shutil.rmtree(d, ignore_errors=True)
    return n, out


TWO_BATCHES = {
    'java': ('src.compilers.java', 'JavaCompiler',
             '/tmp/t1/src/alpha/Main.java:3: error: incompatible types: String cannot be converted to int\n  int x = "a";\n          ^\n1 error\n',
             '/tmp/t2/src/beta/Main.java:5: error: cannot find symbol\n  foo();\n  ^\n1 error\n',
             ['/tmp/t2/src/beta/Main.java']),
    'kotlin': ('src.compilers.kotlin', 'KotlinCompiler',
               '/tmp/t1/src/alpha/program.kt:3:9: error: type mismatch: inferred type is String but Int was expected\n',
               '/tmp/t2/src/beta/program.kt:7:1: error: unresolved reference: foo\n',
               ['/tmp/t2/src/beta/program.kt']),
}


def _same_compiler_twice_check():
    """bounded: the result of analyze_compiler_output is a function of the output (and the filter patterns): a compiler object
    that has already analysed one batch gives, on the next batch, what a fresh object gives -- exactly the files of that
    batch"""
    import importlib
    for m in [k for k in sys.modules if k == 'src' or k.startswith('src.')]:
        del sys.modules[m]
    if REPO not in sys.path:
        sys.path.insert(0, REPO)
    out, n = [], 0
    for lang, (mod, cls, out_a, out_b, files_b) in TWO_BATCHES.items():
        C = getattr(importlib.import_module(mod), cls)
        used, fresh = C('/tmp/t'), C('/tmp/t')
        used.analyze_compiler_output(out_a)
        got, _ = used.analyze_compiler_output(out_b)
        exp, _ = fresh.analyze_compiler_output(out_b)
        n += 2
        g = {k: list(v) for k, v in (got or {}).items()}
        e = {k: list(v) for k, v in (exp or {}).items()}
        if g != e or sorted(e) != files_b:
            out.append(dict(check='bounded[%s:second-batch-on-same-compiler-object]' % lang, function=mod + '.' + cls,
                            expected=e, actual=g, files_of_the_batch=files_b))
    return n, out


def bounded(tier, seed, stop_first=False):
    r = _b.bounded(tier, seed, stop_first)
    n, extra = _patterns_file_check()
    n2, extra2 = _same_compiler_twice_check()
    n, extra = n + n2, extra + extra2
    r['evaluations'] = r.get('evaluations', 0) + n
    r.setdefault('violations', []).extend(extra)
    dropped = [v for v in r.get('violations', []) if any(t in v.get('check', '') for t in UNVALIDATED_GRAMMAR)]
    r['violations'] = [v for v in r.get('violations', []) if v not in dropped]
    r['not_judged'] = ['%s (grammar of this output shape is not validated)' % v['check'] for v in dropped]
    return r
