"""C10 - type unification returns a unifier or nothing."""
import os
import sys

HERE = os.path.dirname(os.path.dirname(os.path.abspath(__file__)))
sys.path.insert(0, HERE)

from props import _identity  # noqa: E402

ID = 'C10'
# modules whose functions must not keep state between calls (pyvc.statecheck.hidden_state_census, syntactic)
HIDDEN_STATE_MODULES = ['src.ir.type_utils', 'src.ir.types']
LEVEL = 'exploration'
SIDECARS = ['types_sub', 'types_ctor', 'cfg_common', 'switches', 'unify']
FUNCTIONS = ['src.ir.type_utils._update_type_var_map',
             # the variable-free approximation of a bound that unify_types checks assigned types against (get_bound_rec)
             'src.ir.types._to_type_variable_free']
# the switch invariants J1/J2 at that construction site are C17's clauses (one of them is a C17 known finding)
IGNORE_OBLIGATIONS = [r'/inv\[J[12]\]$']
ASSUMPTIONS = [
    'proved (small part): the binding helper _update_type_var_map refuses exactly the bindings that would give a variable a '
    'second, different type, records the others and leaves every other binding alone. unify_types itself is NOT under a '
    'deductive contract (DESIGN 10.3: its clauses speak about the final assignment and the match relation is not monotone '
    'under extension of the map); everything about it is the bounded part: the oracle is an independent term-level matcher '
    'written from the property statement',
]
NOT_UNDER_CONTRACT = ['src.ir.type_utils.unify_types']
SIDECARS = SIDECARS + [x for x in _identity.SIDECARS if x not in SIDECARS]
FUNCTIONS = FUNCTIONS + [f for f in _identity.FUNCTIONS if f not in FUNCTIONS]
TRUSTED = ['dictionary keys: two type parameters are the same key iff they are the same object / equal value of the model '
           '(hash consistency of IR objects assumed); PyEq is the answer of the IR\'s own __eq__']

from props import C10_bounded as _b   # noqa: E402
bounded = _b.bounded
replay_search = _b.replay_search
replay = _b.replay
