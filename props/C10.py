"""C10 - type unification returns a unifier or nothing."""
import os
import sys

HERE = os.path.dirname(os.path.dirname(os.path.abspath(__file__)))
sys.path.insert(0, HERE)

ID = 'C10'
LEVEL = 'exploration'
SIDECARS = ['types_sub', 'unify']
FUNCTIONS = ['src.ir.type_utils._update_type_var_map']
ASSUMPTIONS = [
    'proved (small part): the binding helper _update_type_var_map refuses exactly the bindings that would give a variable a '
    'second, different type, records the others and leaves every other binding alone. unify_types itself is NOT under a '
    'deductive contract (DESIGN 10.3: its clauses speak about the final assignment and the match relation is not monotone '
    'under extension of the map); everything about it is the bounded part: the oracle is an independent term-level matcher '
    'written from the property statement',
]
NOT_UNDER_CONTRACT = ['src.ir.type_utils.unify_types']
TRUSTED = ['dictionary keys: two type parameters are the same key iff they are the same object / equal value of the model '
           '(hash consistency of IR objects assumed); PyEq is the answer of the IR\'s own __eq__']

from props import C10_bounded as _b   # noqa: E402
bounded = _b.bounded
replay_search = _b.replay_search
replay = _b.replay
