"""C10 - type unification returns a unifier or nothing."""
import os
import sys

HERE = os.path.dirname(os.path.dirname(os.path.abspath(__file__)))
sys.path.insert(0, HERE)

ID = 'C10'
LEVEL = 'exploration'
SIDECARS = []
FUNCTIONS = []
TRUSTED = []
ASSUMPTIONS = [
    'bounded stand-in only (labelled bounded, nothing here is counted as proved): unify_types is not under a deductive '
    'contract yet; the oracle is an independent term-level matcher written from the property statement',
]
NOT_UNDER_CONTRACT = ['src.ir.type_utils.unify_types', 'src.ir.type_utils._update_type_var_map']

from props import C10_bounded as _b   # noqa: E402
bounded = _b.bounded
replay_search = _b.replay_search
replay = _b.replay
