"""C10 - type unification returns a unifier or nothing."""
import os
import sys

HERE = os.path.dirname(os.path.dirname(os.path.abspath(__file__)))
sys.path.insert(0, HERE)

from props import _identity  # noqa: E402

ID = 'C10'
# modules whose functions must not keep state between calls (pyvc.statecheck.hidden_state_census, syntactic)
HIDDEN_STATE_MODULES = ['src.ir.type_utils', 'src.ir.types']
LEVEL = 'proof'
SIDECARS = ['types_sub', 'types_ctor', 'cfg_common', 'switches', 'unify']
FUNCTIONS = ['src.ir.type_utils._update_type_var_map',
             'src.ir.type_utils.unify_types',
             'src.ir.types.Variance.__eq__',
             # the variable-free approximation of a bound that unify_types checks assigned types against (get_bound_rec)
             'src.ir.types._to_type_variable_free']
# the switch invariants J1/J2 at that construction site are C17's clauses (one of them is a C17 known finding)
IGNORE_OBLIGATIONS = [r'/inv\[J[12]\]$']
ASSUMPTIONS = [
    'proved: (1) the binding helper _update_type_var_map refuses exactly the bindings that would give a variable a second, '
    'different type, records the others and leaves every other binding alone; (2) unify_types, slice mode, obligations at '
    'every binding site and every return statement: a pattern variable is bound only to the target component at the SAME '
    'argument position (use-site projections are unwrapped pairwise and only when their kinds are equal), and only if the '
    'type system answered that the component is a subtype of the variable\'s bound (declared, or resolved by get_bound_rec); '
    'recursion is only on the components at the same position (pattern component or the bound of the pattern variable) or, '
    'in supertype mode, on the last declared supertype of the target; bindings of a recursive call enter the result only '
    'through _update_type_var_map (conflict check); the result map is filled nowhere else; a non-empty result for two '
    'instantiations requires equal generic classes.  NOT proved (bounded part): that applying the final assignment to the '
    'pattern yields the target (needs induction over the type structure), the open-variable clause; the oracle is an '
    'independent term-level matcher written from the property statement',
]
NOT_UNDER_CONTRACT = []
SIDECARS = SIDECARS + [x for x in _identity.SIDECARS if x not in SIDECARS]
FUNCTIONS = FUNCTIONS + [f for f in _identity.FUNCTIONS if f not in FUNCTIONS]
TRUSTED = ['unify_types is verified in slice mode (DESIGN 2.7) under the assumption that its callees (is_subtype, '
           'has_type_variables, get_bound_rec, the recursive calls) do not modify existing types (immutable_fields of the '
           'profile); WithinBound is given by introduction rules over the answers of the real is_subtype (Sub by C06)',
           'dictionary keys: two type parameters are the same key iff they are the same object / equal value of the model '
           '(hash consistency of IR objects assumed); PyEq is the answer of the IR\'s own __eq__']

def custom_proof(tier):
    """the binding-site obligations speak about the RESULT only if the map is filled nowhere else (syntactic)"""
    from pyvc import statecheck, frontend
    fe = frontend.Frontend(os.environ.get('HEPH_REPO', '/repo'))
    return statecheck.result_through_sites(fe, 'src.ir.type_utils.unify_types', 'type_var_map',
                                           allowed_callees=('_update_type_var_map',), every_return=False)


from props import C10_bounded as _b   # noqa: E402
bounded = _b.bounded
replay_search = _b.replay_search
replay = _b.replay
