"""C04 (bounded part) - type overwriting injects exactly one type error.

Run-time evaluation of the property's clauses on the real TypeOverwriting (src/transformations/type_overwriting.py,
with find_irrelevant_type of src/ir/type_utils.py) over a fixed set of hand-built and generated programs in all four
languages, each both as generated and after TypeErasure: structural before/after snapshot (exactly one declared type
differs / nothing differs), declarative unrelatedness of the new type over the program's own class table (+ Java / Groovy
assignment conversions), content of the message, changed / byte-identical translation.  "A correct type checker must
reject" is NOT decided: it is approximated by the local reference of specs/mutations_ref.py (three-valued) and, in the
thorough tier, by real javac on a budgeted subset of the Java translations.
Never counted as proof."""
import os
import sys

HERE = os.path.dirname(os.path.dirname(os.path.abspath(__file__)))
REPO = os.environ.get('HEPH_REPO', '/repo')

ID = 'C04'
PROP = 'C04'
LEVEL = 'exploration'
FUNCTIONS = ['src.transformations.type_overwriting.TypeOverwriting.visit_program',
             'src.transformations.type_overwriting.TypeOverwriting.visit_func_decl',
             'src.transformations.type_overwriting.TypeOverwriting._add_candidate_method',
             'src.ir.type_utils.find_irrelevant_type']


def _load():
    for m in [k for k in sys.modules if k == 'src' or k.startswith('src.') or k == 'hephaestus']:
        del sys.modules[m]
    if REPO not in sys.path:
        sys.path.insert(0, REPO)
    if HERE not in sys.path:
        sys.path.insert(0, HERE)
    import importlib
    from specs import mutations_ref
    importlib.reload(mutations_ref)
    # mutations_ref.load() (called per worker process / per replay) seeds `random` before src.utils is imported,
    # installs the counter-based Node.__hash__ before any node exists and imports the tree named by HEPH_REPO
    return mutations_ref


def bounded(tier, seed, stop_first=False):
    ref = _load()
    tier = tier if tier in ('quick', 'thorough') else 'quick'
    return ref.run(tier, seed, stop_first, prop=PROP)


def replay_search(obligation, qual, seed, tier):
    tier = tier if tier in ('quick', 'thorough') else 'quick'
    if obligation and str(obligation).startswith('bounded['):
        for x in bounded(tier, seed).get('violations') or []:
            if x.get('check') == obligation:
                return x
        return None
    v = bounded(tier, seed, stop_first=True).get('violations') or []
    return v[0] if v else None


def replay(payload):
    fi = payload.get('failing_input')
    if not fi:
        print('replay file carries no concrete input (obligation %s); solver output: %s'
              % (payload.get('obligation'), payload.get('solver', {}).get('reason')))
        return False
    ref = _load()
    fi = dict(fi)
    fi.setdefault('prop', PROP)
    return ref.replay(fi)


if __name__ == '__main__':
    import json
    tier = sys.argv[1] if len(sys.argv) > 1 else os.environ.get('VERIF_TIER', 'quick')
    res = bounded(tier, int(os.environ.get('VERIF_SEED', '0')))
    vs = res.pop('violations')
    print(json.dumps(res, indent=1, default=str))
    for v in vs:
        print('VIOLATION', json.dumps(v, default=str))
