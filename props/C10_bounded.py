"""C10 - type unification returns a unifier or nothing: bounded stand-in (run-time evaluation of the contract of
unify_types on the real code over the finite input set stated in specs/unify_ref.py; never counted as proved)."""
import os
import random
import sys

HERE = os.path.dirname(os.path.dirname(os.path.abspath(__file__)))
REPO = os.environ.get('HEPH_REPO', '/repo')

ID = 'C10'
FUNCTIONS_BOUNDED = ['src.ir.type_utils.unify_types', 'src.ir.type_utils._update_type_var_map']


def _load():
    for m in [k for k in sys.modules if k == 'src' or k.startswith('src.') or k == 'hephaestus']:
        del sys.modules[m]
    sys.path[:] = [p for p in sys.path if p != REPO]
    sys.path.insert(0, REPO)
    if HERE not in sys.path:
        sys.path.insert(0, HERE)
    random.seed(0)          # src.utils samples its word pool with the global RNG at import
    import importlib
    importlib.import_module('src.ir.types')
    importlib.import_module('src.ir.type_utils')
    from specs import unify_ref
    importlib.reload(unify_ref)
    return unify_ref


def bounded(tier, seed, stop_first=False):
    return _load().run(tier, seed, stop_first)


def replay_search(obligation, qual, seed, tier):
    """a concrete failing input for a failed obligation: the violation of the bounded run whose check name is the
    obligation itself, else the first violation found"""
    r = bounded('quick', seed)
    v = r.get('violations') or []
    for x in v:
        if x.get('check') == obligation:
            return x
    return v[0] if v else None


def replay(payload):
    fi = payload.get('failing_input')
    if not fi:
        print('replay file carries no concrete input (obligation %s); solver output: %s'
              % (payload.get('obligation'), payload.get('solver', {}).get('reason')))
        return False
    return _load().replay(fi)


if __name__ == '__main__':
    import json
    import time
    tier = sys.argv[1] if len(sys.argv) > 1 else os.environ.get('VERIF_TIER', 'quick')
    t0 = time.time()
    res = bounded(tier, int(os.environ.get('VERIF_SEED', '0')))
    res['seconds'] = round(time.time() - t0, 1)
    res['rule'] = res['rule'][:120] + '...'
    print(json.dumps(res, indent=1))
    for v in res['violations']:
        print('replay of', v['check'], '->', 'holds' if replay(dict(failing_input=v)) else 'VIOLATION reproduces')
    sys.exit(1 if res['violations'] else 0)
