"""C14 - compiler diagnostics are attributed to the right programs: bounded stand-in.

Run-time evaluation of the property's contract on the real `analyze_compiler_output` of the four compiler classes over
grammar-generated compiler outputs (oracle: the record list the output was rendered from) and over real javac runs;
see specs/diag_ref.py.  Never counted as proof."""
import os
import random
import sys

HERE = os.path.dirname(os.path.dirname(os.path.abspath(__file__)))
REPO = os.environ.get('HEPH_REPO', '/repo')

ID = 'C14'
FUNCTIONS_CHECKED = ['src.compilers.base.BaseCompiler.analyze_compiler_output',
                     'src.compilers.groovy.GroovyCompiler.analyze_compiler_output',
                     'src.compilers.java.JavaCompiler (ERROR_REGEX, CRASH_REGEX)',
                     'src.compilers.kotlin.KotlinCompiler (ERROR_REGEX, CRASH_REGEX)',
                     'src.compilers.groovy.GroovyCompiler (ERROR_REGEX, CRASH_REGEX, STACKOVERFLOW_REGEX)',
                     'src.compilers.scala.ScalaCompiler (ERROR_REGEX, CRASH_REGEX)']


def _load():
    random.seed(0)      # src.utils samples its word pool with the global RNG at import time
    for m in [k for k in sys.modules if k in ('src', 'hephaestus') or k.startswith('src.') or k.startswith('hephaestus.')]:
        del sys.modules[m]
    for p in [p for p in sys.path if p != REPO and os.path.isfile(os.path.join(p, 'src', 'compilers', 'base.py'))]:
        sys.path.remove(p)
    if REPO in sys.path:
        sys.path.remove(REPO)
    sys.path.insert(0, REPO)
    if HERE not in sys.path:
        sys.path.insert(1, HERE)
    import importlib
    from specs import diag_ref
    classes = {lang: getattr(importlib.import_module(inf['mod']), inf['cls']) for lang, inf in diag_ref.INFO.items()}
    for lang, cls in classes.items():
        f = sys.modules[cls.__module__].__file__
        assert os.path.realpath(f).startswith(os.path.realpath(REPO) + os.sep), (f, REPO)
    diag_ref.bind(classes, REPO)
    return diag_ref


def bounded(tier, seed, stop_first=False):
    ref = _load()
    return ref.run(tier, seed, stop_first=stop_first)


def replay_search(obligation, qual, seed, tier):
    """smallest recorded input for a failing bounded check (or for any check on the function `qual`)"""
    ref = _load()
    r = ref.run('quick', seed)
    vs = r.get('violations') or []
    for v in vs:
        if v['check'] == obligation:
            return v
    for v in vs:
        if qual and v.get('function', '').startswith(qual.rsplit('.', 1)[0]):
            return v
    return vs[0] if vs else None


def replay(payload):
    """re-execute a recorded failing input on the current tree; True if the property holds on it"""
    ref = _load()
    fi = payload.get('failing_input')
    if not fi:
        print('replay file carries no concrete input (obligation %s); solver output: %s'
              % (payload.get('obligation'), payload.get('solver', {}).get('reason')))
        return False
    return ref.replay(fi)
