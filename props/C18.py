"""C18 - the pipeline never fails internally and always terminates."""
import os
import sys

HERE = os.path.dirname(os.path.dirname(os.path.abspath(__file__)))
sys.path.insert(0, HERE)

ID = 'C18'
LEVEL = 'exploration'
SIDECARS = []
FUNCTIONS = []
TRUSTED = []
ASSUMPTIONS = [
    'bounded stand-in only (labelled bounded, nothing is counted as proved): generate -> translate -> TypeErasure -> '
    'translate -> TypeOverwriting -> translate on the real code for a finite list of (language, seed, switches, depth '
    'limit, mutation options); "terminates" is a work budget (generate_expr calls, visitor calls, feasibility checks), '
    'never a proof; the nesting bound is a function of the configured depth derived from the generator code',
    'run-time-error freedom of the functions that ARE under deductive contract (graph queries, symbol table, driver, '
    'subtyping, substitution, diagnostics glue) is discharged as safety[...] obligations of C19/C16/C15/C06/C07/C14; the '
    'generator itself (2700 lines of randomised recursive descent) is outside the reach of the VC generator',
]
NOT_UNDER_CONTRACT = ['src.generators.generator.Generator (all gen_* methods)', 'src.transformations.*',
                      'src.translators.*', 'hephaestus.gen_program']

from props import C18_bounded as _b   # noqa: E402
bounded = _b.bounded
replay_search = _b.replay_search
replay = _b.replay
