"""C18 - the pipeline never fails internally and always terminates."""
import os
import sys

HERE = os.path.dirname(os.path.dirname(os.path.abspath(__file__)))
sys.path.insert(0, HERE)

ID = 'C18'
LEVEL = 'exploration'
SIDECARS = []
FUNCTIONS = []
TRUSTED = []
ASSUMPTIONS = [
    'bounded stand-in only (labelled bounded, nothing is counted as proved): generate -> translate -> TypeErasure -> '
    'translate -> TypeOverwriting -> translate on the real code for a finite list of (language, seed, switches, depth '
    'limit, mutation options); "terminates" is a work budget (generate_expr calls, visitor calls, feasibility checks), '
    'never a proof; the nesting bound is a function of the configured depth derived from the generator code',
    'run-time-error freedom of the functions that ARE under deductive contract (graph queries, symbol table, driver, '
    'subtyping, substitution, diagnostics glue) is discharged as safety[...] obligations of C19/C16/C15/C06/C07/C14; the '
    'generator itself (2700 lines of randomised recursive descent) is outside the reach of the VC generator',
]
NOT_UNDER_CONTRACT = ['src.generators.generator.Generator (all gen_* methods)', 'src.transformations.*',
                      'src.translators.*', 'hephaestus.gen_program']

from props import C18_bounded as _b   # noqa: E402
replay_search = _b.replay_search
REPO = os.environ.get('HEPH_REPO', '/repo')
K_CLASSES, M_PARAMS, GET_TYPES_SEEDS = 8, 5, 12


def _get_types_check():
    """bounded: Program.get_types() -- called at the start of every transformation and by the Java/Groovy translators --
    instantiates type constructors with types drawn from the program's class declarations; a picked generic class is
    instantiated recursively and removed from the pool, so the nesting of the produced types is bounded by the number of
    generic classes (+1), whatever the random choices.  Checked on a program whose classes are all generic."""
    for m in [k for k in sys.modules if k == 'src' or k.startswith('src.')]:
        del sys.modules[m]
    if REPO not in sys.path:
        sys.path.insert(0, REPO)
    from src import utils
    from src.ir import ast, types as tp
    from src.ir.context import Context

    def build():
        ctx = Context()
        for i in range(K_CLASSES):
            t_params = [tp.TypeParameter('T%d_%d' % (i, j)) for j in range(M_PARAMS)]
            ctx.add_class(ast.GLOBAL_NAMESPACE, 'Cls%d' % i, ast.ClassDeclaration(
                'Cls%d' % i, [], ast.ClassDeclaration.REGULAR, fields=[], functions=[], is_final=True,
                type_parameters=t_params))
        return ast.Program(ctx, 'java')

    def nesting(t):
        t_args = getattr(t, 'type_args', None)
        if t is None or not t_args:
            b = getattr(t, 'bound', None)
            return nesting(b) if b is not None and t.is_wildcard() else 0
        return 1 + max(nesting(a) for a in t_args)

    out, n = [], 0
    old_limit = sys.getrecursionlimit()
    sys.setrecursionlimit(1500)
    try:
        for seed in range(GET_TYPES_SEEDS):
            utils.random.r.seed(seed)
            n += 1
            try:
                depth = max([nesting(t) for t in build().get_types() if isinstance(t, tp.Type)] or [0])
            except Exception as e:          # RecursionError included
                out.append(dict(check='bounded[get-types:exception:%s]' % type(e).__name__, function='src.ir.ast.Program.get_types',
                                seed=seed, actual=str(e)[:200]))
                break
            if depth > K_CLASSES + 1:
                out.append(dict(check='bounded[get-types:type-nesting]', function='src.ir.ast.Program.get_types', seed=seed,
                                actual='type nesting %d' % depth, expected='<= %d (generic classes + 1)' % (K_CLASSES + 1)))
                break
    finally:
        sys.setrecursionlimit(old_limit)
    return n, out


def bounded(tier, seed, stop_first=False):
    r = _b.bounded(tier, seed, stop_first)
    n, extra = _get_types_check()
    r['evaluations'] = r.get('evaluations', 0) + n
    r.setdefault('violations', []).extend(extra)
    return r


def replay(payload):
    fi = payload.get('failing_input') or {}
    if str(fi.get('check', '')).startswith('bounded[get-types'):
        n, out = _get_types_check()
        for v in out:
            print('%s: seed %s: %s' % (v['check'], v.get('seed'), v.get('actual')))
        return not out
    return _b.replay(payload)
