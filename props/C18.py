"""C18 - the pipeline never fails internally and always terminates."""
import os
import sys

HERE = os.path.dirname(os.path.dirname(os.path.abspath(__file__)))
sys.path.insert(0, HERE)

ID = 'C18'
LEVEL = 'exploration'
SIDECARS = []
FUNCTIONS = []
TRUSTED = []
ASSUMPTIONS = [
    'bounded stand-in only (labelled bounded, nothing is counted as proved): generate -> translate -> TypeErasure -> '
    'translate -> TypeOverwriting -> translate on the real code for a finite list of (language, seed, switches, depth '
    'limit, mutation options); "terminates" is a work budget (generate_expr calls, visitor calls, feasibility checks), '
    'never a proof; the nesting bound is a function of the configured depth derived from the generator code',
    'run-time-error freedom of the functions that ARE under deductive contract (graph queries, symbol table, driver, '
    'subtyping, substitution, diagnostics glue) is discharged as safety[...] obligations of C19/C16/C15/C06/C07/C14; the '
    'generator itself (2700 lines of randomised recursive descent) is outside the reach of the VC generator',
]
NOT_UNDER_CONTRACT = ['src.generators.generator.Generator (all gen_* methods)', 'src.transformations.*',
                      'src.translators.*', 'hephaestus.gen_program (only its try/except shape: 4 syntactic obligations)']

PIPELINE_CALLS = ('get_program', 'process_cp_transformations', 'process_ncp_transformations', 'save_program',
                  'translate_program')


def custom_proof(tier):
    """the last line of defence named by the property's anchors (hephaestus.py gen_program): every pipeline stage runs
    inside one try whose handler catches Exception, never re-raises and returns a failed ProgramRes on every path.
    Syntactic obligations on the real AST (no SMT): they do not show that the stages terminate or do not fail, only that a
    failure is reported as a failed program and not as a crash of the tool."""
    import ast
    repo = os.environ.get('HEPH_REPO', '/repo')
    tree = ast.parse(open(os.path.join(repo, 'hephaestus.py')).read())
    fn = next((n for n in tree.body if isinstance(n, ast.FunctionDef) and n.name == 'gen_program'), None)
    out = []

    def ob(name, ok, why=''):
        out.append(dict(name='hephaestus.gen_program/' + name, function='hephaestus.gen_program',
                        lineno=getattr(fn, 'lineno', 0), kind='proof', status='proved' if ok else 'failed', secs=0,
                        backend='syntactic', reason='' if ok else why))
    if fn is None:
        ob('exists', False, 'hephaestus.gen_program not found')
        return out
    tries = [s for s in fn.body if isinstance(s, ast.Try)]
    ob('single-try', len(tries) == 1 and fn.body[-1] is tries[0],
       'the body of gen_program does not end with exactly one try statement')
    if not tries:
        return out
    t = tries[0]
    inside = {id(n) for s in t.body for n in ast.walk(s)}
    stray = [n for n in ast.walk(fn) if isinstance(n, ast.Call) and (
        (isinstance(n.func, ast.Attribute) and n.func.attr in PIPELINE_CALLS) or
        (isinstance(n.func, ast.Name) and n.func.id in PIPELINE_CALLS)) and id(n) not in inside]
    ob('stages-inside-try', not stray, 'pipeline stage called outside the try: ' +
       ', '.join('line %d' % n.lineno for n in stray[:3]))
    hs = t.handlers
    catches = len(hs) >= 1 and any(h.type is None or (isinstance(h.type, ast.Name) and h.type.id in ('Exception', 'BaseException'))
                                   for h in hs)
    ob('handler-catches-exception', catches and not t.finalbody, 'no handler for Exception (or a finally block)')
    bad = []
    for h in hs:
        for n in ast.walk(h):
            if isinstance(n, ast.Raise):
                bad.append('line %d: raise in the handler' % n.lineno)
        last = h.body[-1] if h.body else None
        ok_ret = isinstance(last, ast.Return) and isinstance(last.value, ast.Call) and isinstance(last.value.func, ast.Name) \
            and last.value.func.id == 'ProgramRes' and last.value.args \
            and isinstance(last.value.args[0], ast.Constant) and last.value.args[0].value is True
        if not ok_ret:
            bad.append('line %d: the handler does not end with `return ProgramRes(True, ...)`' % h.lineno)
        for n in ast.walk(h):
            if isinstance(n, ast.Return) and n is not last:
                bad.append('line %d: early return in the handler' % n.lineno)
    ob('handler-reports-failed-program', not bad, '; '.join(bad[:3]))
    return out


from props import C18_bounded as _b   # noqa: E402
replay_search = _b.replay_search
REPO = os.environ.get('HEPH_REPO', '/repo')
K_CLASSES, M_PARAMS, GET_TYPES_SEEDS = 8, 5, 12


def _get_types_check():
    """bounded: Program.get_types() -- called at the start of every transformation and by the Java/Groovy translators --
    instantiates type constructors with types drawn from the program's class declarations; a picked generic class is
    instantiated recursively and removed from the pool, so the nesting of the produced types is bounded by the number of
    generic classes (+1), whatever the random choices.  Checked on a program whose classes are all generic."""
    for m in [k for k in sys.modules if k == 'src' or k.startswith('src.')]:
        del sys.modules[m]
    if REPO not in sys.path:
        sys.path.insert(0, REPO)
    from src import utils
    from src.ir import ast, types as tp
    from src.ir.context import Context

    def build():
        ctx = Context()
        for i in range(K_CLASSES):
            t_params = [tp.TypeParameter('T%d_%d' % (i, j)) for j in range(M_PARAMS)]
            ctx.add_class(ast.GLOBAL_NAMESPACE, 'Cls%d' % i, ast.ClassDeclaration(
                'Cls%d' % i, [], ast.ClassDeclaration.REGULAR, fields=[], functions=[], is_final=True,
                type_parameters=t_params))
        return ast.Program(ctx, 'java')

    def nesting(t):
        t_args = getattr(t, 'type_args', None)
        if t is None or not t_args:
            b = getattr(t, 'bound', None)
            return nesting(b) if b is not None and t.is_wildcard() else 0
        return 1 + max(nesting(a) for a in t_args)

    out, n = [], 0
    old_limit = sys.getrecursionlimit()
    sys.setrecursionlimit(1500)
    try:
        for seed in range(GET_TYPES_SEEDS):
            utils.random.r.seed(seed)
            n += 1
            try:
                depth = max([nesting(t) for t in build().get_types() if isinstance(t, tp.Type)] or [0])
            except Exception as e:          # RecursionError included
                out.append(dict(check='bounded[get-types:exception:%s]' % type(e).__name__, function='src.ir.ast.Program.get_types',
                                seed=seed, actual=str(e)[:200]))
                break
            if depth > K_CLASSES + 1:
                out.append(dict(check='bounded[get-types:type-nesting]', function='src.ir.ast.Program.get_types', seed=seed,
                                actual='type nesting %d' % depth, expected='<= %d (generic classes + 1)' % (K_CLASSES + 1)))
                break
    finally:
        sys.setrecursionlimit(old_limit)
    return n, out


def _word_pool_check():
    """bounded: a long session generates many programs in one process; reset_word_pool() (called per program by
    hephaestus.gen_program) must restore the whole identifier pool, however many words earlier programs consumed --
    otherwise the pool runs dry after some dozens of programs and generation raises"""
    for m in [k for k in sys.modules if k == 'src' or k.startswith('src.')]:
        del sys.modules[m]
    if REPO not in sys.path:
        sys.path.insert(0, REPO)
    from src import utils
    rnd = utils.random
    rnd.r.seed(7)
    rnd.reset_word_pool()
    full = len(rnd.WORDS)
    out = []
    for k in range(5):
        for _ in range(200):
            rnd.word()
        rnd.reset_word_pool()
        if len(rnd.WORDS) != full:
            out.append(dict(check='bounded[word-pool:reset-restores-the-pool]', function='src.utils.RandomUtils.reset_word_pool',
                            actual='%d words after reset #%d' % (len(rnd.WORDS), k + 1), expected='%d words' % full))
            break
    return 5, out


def bounded(tier, seed, stop_first=False):
    r = _b.bounded(tier, seed, stop_first)
    n, extra = _get_types_check()
    n3, extra3 = _word_pool_check()
    n, extra = n + n3, extra + extra3
    r['evaluations'] = r.get('evaluations', 0) + n
    r.setdefault('violations', []).extend(extra)
    return r


def replay(payload):
    fi = payload.get('failing_input') or {}
    if str(fi.get('check', '')).startswith('bounded[word-pool'):
        n, out = _word_pool_check()
        for v in out:
            print('%s: %s (expected %s)' % (v['check'], v.get('actual'), v.get('expected')))
        return not out
    if str(fi.get('check', '')).startswith('bounded[get-types'):
        n, out = _get_types_check()
        for v in out:
            print('%s: seed %s: %s' % (v['check'], v.get('seed'), v.get('actual')))
        return not out
    return _b.replay(payload)
