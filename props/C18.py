"""C18 - the pipeline never fails internally and always terminates."""
import os
import sys

HERE = os.path.dirname(os.path.dirname(os.path.abspath(__file__)))
sys.path.insert(0, HERE)

ID = 'C18'
LEVEL = 'exploration'
SIDECARS = ['ranges']
# the proof part (contracts/ranges.py): every function of the generator / the mutations whose random draws can be shown
# non-empty from the function's own text plus the configuration invariants
FUNCTIONS = [
    'src.generators.generator.Generator.gen_top_level_declaration',
    'src.generators.generator.Generator._gen_func_params_with_default',
    'src.generators.generator.Generator._select_superclass',
    'src.generators.generator.Generator.gen_class_fields',
    'src.generators.generator.Generator.gen_class_functions',
    'src.generators.generator.Generator.gen_assignment',
    'src.generators.generator.Generator._get_classes_with_assignable_fields',
    'src.generators.generator.Generator.gen_field_access',
    'src.generators.generator.Generator.gen_array_expr',
    'src.generators.generator.Generator.gen_is_expr',
    'src.generators.generator.Generator._gen_func_call',
    'src.generators.generator.Generator._gen_func_call_ref',
    'src.generators.generator.Generator._gen_func_ref',
    'src.generators.generator.Generator.gen_type_params',
    'src.generators.generator.Generator._get_func_ret_type',
    'src.generators.generator.Generator._gen_func_params',
    'src.generators.generator.Generator._gen_side_effects',
    'src.generators.generator.Generator._get_matching_class',
    'src.generators.generators.gen_integer_constant',
    'src.generators.generators.gen_real_constant',
    'src.generators.generators.gen_bool_constant',
    'src.generators.utils.select_class_type',
    'src.ir.type_utils.find_irrelevant_type',
    'src.ir.type_utils._construct_related_types',
    'src.transformations.type_overwriting.TypeOverwriting.visit_program',
]
CONFIG_INVARIANTS = {
    'limits.cls.max_fields': ('>=', 1),
    'limits.cls.max_funcs': ('>=', 2),
    'limits.fn.max_params': ('>=', 0),
    'limits.fn.max_side_effects': ('>=', 0),
    'limits.max_type_params': ('>=', 3),
}
TRUSTED = [
    'slice mode (DESIGN 2.7) for the 25 functions of contracts/ranges.py: statements outside the subset are havocked; the '
    'obligations sit at the calls of ut.random.choice / integer / sample (a draw whose argument cannot be evaluated makes the '
    'function unanalysable, it is never dropped)',
    'random.choice(xs) fails only on an empty sequence, random.randint(a, b) only when a > b, random.sample(xs, k) only when '
    'k > len(xs) (CPython semantics of the three externals); the argument of choice is a sequence (types are not checked)',
    'x.append(e) on a local of unknown static type leaves x non-empty; lists are values (aliases of a local list are not '
    'tracked); len() / truthiness of a value of unknown static type follow its run-time kind (prelude axioms alen_*, truth_*)',
    'ASSUMED precondition of Generator.gen_type_params: count is None or 0 <= count <= 4 (callers pass the number of type '
    'variables of a type of the program); not proved at the call sites, checked at run time on every program of the bounded tier',
    'configuration invariants (contracts/ranges.py global_invariant): literal defaults of src/generators/config.py + no store '
    'of those fields anywhere else in src/ and hephaestus.py + json_config / process_arg never called (syntactic census)',
]
ASSUMPTIONS = [
    'proof part (31 site obligations over 25 functions + 6 configuration obligations): the random draws of those functions '
    'never see an empty range / candidate list / over-sized sample (three of the crash classes named by the property: '
    '"empty candidate lists"); every other draw of the pipeline (36 of 60 sites: the argument comes from a callee such as '
    'find_subtypes / get_types / get_generators) and every other exception class is covered by the bounded stand-in only',
    'bounded stand-in (labelled bounded, nothing of it is counted as proved): generate -> translate -> TypeErasure -> '
    'translate -> TypeOverwriting -> translate on the real code for a finite list of (language, seed, switches, depth '
    'limit, mutation options); "terminates" is a work budget (generate_expr calls, visitor calls, feasibility checks), '
    'never a proof; the nesting bound is a function of the configured depth derived from the generator code',
    'run-time-error freedom of the functions that ARE under deductive contract (graph queries, symbol table, driver, '
    'subtyping, substitution, diagnostics glue) is discharged as safety[...] obligations of C19/C16/C15/C06/C07/C14; the '
    'generator itself (2700 lines of randomised recursive descent) is outside the reach of the VC generator',
]
NOT_UNDER_CONTRACT = ['src.generators.generator.Generator (all gen_* methods except the draws of the 18 listed in FUNCTIONS)',
                      'draws not under contract: Generator.generate_expr, gen_variable, gen_equality_expr, gen_logical_expr, '
                      'gen_comparison_expr, gen_conditional (1 of 3), _get_subclass, select_type, _create_type_params_from_etype; '
                      'type_utils._construct_related_types, get_irrelevant_parameterized_type (its candidate list is non-empty only if the pool holds a type different from the excluded one: a property of the pools the pipeline builds, not of the function), _get_type_arg_variance (proved under C08/C17), '
                      '_compute_type_variable_assignments, choose_type; TypeOverwriting.visit_func_decl; '
                      'ProgramProcessor._get_transformation_schedule, inject_fault', 'src.transformations.*',
                      'src.translators.*', 'hephaestus.gen_program (only its try/except shape: 4 syntactic obligations)']

PIPELINE_CALLS = ('get_program', 'process_cp_transformations', 'process_ncp_transformations', 'save_program',
                  'translate_program')


def custom_proof(tier):
    """the last line of defence named by the property's anchors (hephaestus.py gen_program): every pipeline stage runs
    inside one try whose handler catches Exception, never re-raises and returns a failed ProgramRes on every path.
    Syntactic obligations on the real AST (no SMT): they do not show that the stages terminate or do not fail, only that a
    failure is reported as a failed program and not as a crash of the tool."""
    import ast
    repo = os.environ.get('HEPH_REPO', '/repo')
    tree = ast.parse(open(os.path.join(repo, 'hephaestus.py')).read())
    fn = next((n for n in tree.body if isinstance(n, ast.FunctionDef) and n.name == 'gen_program'), None)
    from pyvc import statecheck
    out = statecheck.config_invariants(repo, CONFIG_INVARIANTS, os.path.join(HERE, 'contracts', 'ranges.py'))

    def ob(name, ok, why=''):
        out.append(dict(name='hephaestus.gen_program/' + name, function='hephaestus.gen_program',
                        lineno=getattr(fn, 'lineno', 0), kind='proof', status='proved' if ok else 'failed', secs=0,
                        backend='syntactic', reason='' if ok else why))
    if fn is None:
        ob('exists', False, 'hephaestus.gen_program not found')
        return out
    tries = [s for s in fn.body if isinstance(s, ast.Try)]
    ob('single-try', len(tries) == 1 and fn.body[-1] is tries[0],
       'the body of gen_program does not end with exactly one try statement')
    if not tries:
        return out
    t = tries[0]
    inside = {id(n) for s in t.body for n in ast.walk(s)}
    stray = [n for n in ast.walk(fn) if isinstance(n, ast.Call) and (
        (isinstance(n.func, ast.Attribute) and n.func.attr in PIPELINE_CALLS) or
        (isinstance(n.func, ast.Name) and n.func.id in PIPELINE_CALLS)) and id(n) not in inside]
    ob('stages-inside-try', not stray, 'pipeline stage called outside the try: ' +
       ', '.join('line %d' % n.lineno for n in stray[:3]))
    hs = t.handlers
    catches = len(hs) >= 1 and any(h.type is None or (isinstance(h.type, ast.Name) and h.type.id in ('Exception', 'BaseException'))
                                   for h in hs)
    ob('handler-catches-exception', catches and not t.finalbody, 'no handler for Exception (or a finally block)')
    bad = []
    for h in hs:
        for n in ast.walk(h):
            if isinstance(n, ast.Raise):
                bad.append('line %d: raise in the handler' % n.lineno)
        last = h.body[-1] if h.body else None
        ok_ret = isinstance(last, ast.Return) and isinstance(last.value, ast.Call) and isinstance(last.value.func, ast.Name) \
            and last.value.func.id == 'ProgramRes' and last.value.args \
            and isinstance(last.value.args[0], ast.Constant) and last.value.args[0].value is True
        if not ok_ret:
            bad.append('line %d: the handler does not end with `return ProgramRes(True, ...)`' % h.lineno)
        for n in ast.walk(h):
            if isinstance(n, ast.Return) and n is not last:
                bad.append('line %d: early return in the handler' % n.lineno)
    ob('handler-reports-failed-program', not bad, '; '.join(bad[:3]))
    return out


from props import C18_bounded as _b   # noqa: E402


def replay_search(obligation, qual, seed, tier):
    """a concrete failing input for a failed proof obligation: first the function-level inputs of this module (they name
    the function they exercise), then the pipeline runs"""
    short = (qual or '').split('.')[-1]
    try:
        for chk in (_primitive_array_check,):
            n, out = chk()
            for v in out:
                if short and short in str(v.get('function', '')):
                    return v
    except Exception:
        pass
    return _b.replay_search(obligation, qual, seed, tier)
REPO = os.environ.get('HEPH_REPO', '/repo')
K_CLASSES, M_PARAMS, GET_TYPES_SEEDS = 8, 5, 12


def _get_types_check():
    """bounded: Program.get_types() -- called at the start of every transformation and by the Java/Groovy translators --
    instantiates type constructors with types drawn from the program's class declarations; a picked generic class is
    instantiated recursively and removed from the pool, so the nesting of the produced types is bounded by the number of
    generic classes (+1), whatever the random choices.  Checked on a program whose classes are all generic."""
    for m in [k for k in sys.modules if k == 'src' or k.startswith('src.')]:
        del sys.modules[m]
    if REPO not in sys.path:
        sys.path.insert(0, REPO)
    from src import utils
    from src.ir import ast, types as tp
    from src.ir.context import Context

    def build():
        ctx = Context()
        for i in range(K_CLASSES):
            t_params = [tp.TypeParameter('T%d_%d' % (i, j)) for j in range(M_PARAMS)]
            ctx.add_class(ast.GLOBAL_NAMESPACE, 'Cls%d' % i, ast.ClassDeclaration(
                'Cls%d' % i, [], ast.ClassDeclaration.REGULAR, fields=[], functions=[], is_final=True,
                type_parameters=t_params))
        return ast.Program(ctx, 'java')

    def nesting(t):
        t_args = getattr(t, 'type_args', None)
        if t is None or not t_args:
            b = getattr(t, 'bound', None)
            return nesting(b) if b is not None and t.is_wildcard() else 0
        return 1 + max(nesting(a) for a in t_args)

    out, n = [], 0
    old_limit = sys.getrecursionlimit()
    sys.setrecursionlimit(1500)
    try:
        for seed in range(GET_TYPES_SEEDS):
            utils.random.r.seed(seed)
            n += 1
            try:
                depth = max([nesting(t) for t in build().get_types() if isinstance(t, tp.Type)] or [0])
            except Exception as e:          # RecursionError included
                out.append(dict(check='bounded[get-types:exception:%s]' % type(e).__name__, function='src.ir.ast.Program.get_types',
                                seed=seed, actual=str(e)[:200]))
                break
            if depth > K_CLASSES + 1:
                out.append(dict(check='bounded[get-types:type-nesting]', function='src.ir.ast.Program.get_types', seed=seed,
                                actual='type nesting %d' % depth, expected='<= %d (generic classes + 1)' % (K_CLASSES + 1)))
                break
    finally:
        sys.setrecursionlimit(old_limit)
    return n, out


def _word_pool_check():
    """bounded: a long session generates many programs in one process; reset_word_pool() (called per program by
    hephaestus.gen_program) must restore the whole identifier pool, however many words earlier programs consumed --
    otherwise the pool runs dry after some dozens of programs and generation raises"""
    for m in [k for k in sys.modules if k == 'src' or k.startswith('src.')]:
        del sys.modules[m]
    if REPO not in sys.path:
        sys.path.insert(0, REPO)
    from src import utils
    rnd = utils.random
    rnd.r.seed(7)
    rnd.reset_word_pool()
    full = len(rnd.WORDS)
    out = []
    for k in range(5):
        for _ in range(200):
            rnd.word()
        rnd.reset_word_pool()
        if len(rnd.WORDS) != full:
            out.append(dict(check='bounded[word-pool:reset-restores-the-pool]', function='src.utils.RandomUtils.reset_word_pool',
                            actual='%d words after reset #%d' % (len(rnd.WORDS), k + 1), expected='%d words' % full))
            break
    return 5, out


def _hand_mutation_check(tier):
    """bounded: the mutations on the hand-built programs of the C03 / C04 harness (constructs the generator produces rarely:
    explicit type arguments of generic calls, bounded type variables, shadowing, super-constructor arguments, ...) -- every
    language x scenario x a few random streams, erased and not erased: TypeErasure, TypeOverwriting and the translator must
    not raise."""
    for m in [k for k in sys.modules if k == 'src' or k.startswith('src.')]:
        del sys.modules[m]
    from specs import mutations_ref as R
    M = R.load(REPO)
    out, n = [], 0
    rngs = [1000, 1001, 1002, 1003, 1004] if tier == 'quick' else list(range(1000, 1010))
    seen = set()
    for lang in ('java', 'kotlin', 'groovy', 'scala'):
        for ident in R.HAND:
            try:
                P0 = R.build_input(M, 'hand', lang, ident)
            except Exception:
                continue
            for erased in (False, True):
                for rng in rngs:
                    n += 1
                    fi = dict(prop='C04', source='hand', lang=lang, ident=ident, erased=erased, rng=rng)
                    try:
                        vio, _, _ = R.eval_c04(M, P0, fi)
                    except Exception as e:
                        vio = [dict(check='bounded[overwrite:exception]', exception=repr(e)[:300])]
                    for v in vio:
                        if 'exception' not in str(v.get('check', '')):
                            continue
                        key = (str(v.get('exception', ''))[:60])
                        if key in seen:
                            continue
                        seen.add(key)
                        out.append(dict(check='bounded[hand-built:mutation-raises]', function=v.get('function'),
                                        lang=lang, ident=ident, erased=erased, rng=rng, actual=v.get('exception')))
    return n, out


def _driver_loop_check(tier):
    """the driver's own stage loop (tools/c18_driver_probe.py, one subprocess per language x --transformations value): the
    real hephaestus.gen_program through --replay on hand-built programs, one of which gives the erasure nothing to erase;
    a failed record = an exception escaped a stage"""
    import json
    import subprocess
    n, out = 0, []
    repo = os.environ.get('HEPH_REPO', '/repo')
    langs = ('kotlin', 'java', 'groovy', 'scala')
    ts = (0, 1, 2, 3) if tier != 'quick' else (0, 2)
    procs = []
    for lang in langs:
        for t in ts:
            procs.append((lang, t, subprocess.Popen(
                [sys.executable, os.path.join(HERE, 'tools', 'c18_driver_probe.py'), repo, lang, str(t)],
                stdout=subprocess.PIPE, stderr=subprocess.STDOUT, text=True, env=dict(os.environ, PYTHONHASHSEED='0'))))
    for lang, t, p in procs:
        try:
            txt = p.communicate(timeout=600)[0]
        except subprocess.TimeoutExpired:
            p.kill()
            out.append(dict(check='bounded[driver-loop:no-termination]', function='hephaestus.gen_program', lang=lang, t=t,
                            actual='no result after 600 s'))
            continue
        line = next((l for l in txt.splitlines() if l.startswith('PROBE ')), None)
        if line is None:
            out.append(dict(check='bounded[driver-loop:harness]', function='hephaestus.gen_program', lang=lang, t=t,
                            actual=txt[-300:]))
            continue
        d = json.loads(line[6:])
        n += d.get('runs', 0)
        if d.get('harness_error'):
            out.append(dict(check='bounded[driver-loop:harness]', function='hephaestus.gen_program', lang=lang, t=t,
                            actual=d['harness_error'][-300:]))
        for f in d.get('failed', []):
            out.append(dict(check='bounded[driver-loop:stage-raises]', function='hephaestus.gen_program', lang=lang, t=t,
                            program=f['program'], actual=f['error']))
    # one witness per check name
    seen, uniq = set(), []
    for v in out:
        if v['check'] not in seen:
            seen.add(v['check'])
            uniq.append(v)
    return n, uniq


def _primitive_array_check():
    """the subtype / supertype search on arrays of primitive types (Java and Groovy have them: int[] is Array<int>): the
    related-instantiation step filters primitives out of its candidates and then draws from what is left"""
    import importlib
    import random as _r
    for m in [k for k in sys.modules if k == 'src' or k.startswith('src.')]:
        del sys.modules[m]
    repo = os.environ.get('HEPH_REPO', '/repo')
    if repo not in sys.path:
        sys.path.insert(0, repo)
    _r.seed(5)
    n, out = 0, []
    tu = importlib.import_module('src.ir.type_utils')
    for lang in ('java', 'groovy'):
        mod = importlib.import_module('src.ir.%s_types' % lang)
        fac = [v for k, v in vars(mod).items() if k.endswith('BuiltinFactory') and isinstance(v, type) and v.__module__ == mod.__name__]
        if not fac:
            continue
        f = fac[0]()
        pool = list(f.get_non_nothing_types())
        for prim in f.get_primitive_types():
            arr = mod.Array.new([prim])
            for fn in ('find_subtypes', 'find_supertypes'):
                n += 1
                try:
                    getattr(tu, fn)(arr, pool, include_self=False, concrete_only=True)
                except Exception as e:
                    if not any(v['check'] == 'bounded[primitive-array:search-raises]' for v in out):
                        import traceback
                        fr = traceback.extract_tb(e.__traceback__)
                        inner = [x for x in fr if '/src/' in x.filename]
                        out.append(dict(check='bounded[primitive-array:search-raises]',
                                        function='src.ir.type_utils._construct_related_types', lang=lang, query=str(arr),
                                        call=fn, actual='%s: %s at %s:%s' % (type(e).__name__, e,
                                                                             inner[-1].name if inner else '?',
                                                                             inner[-1].lineno if inner else '?')))
    return n, out


def bounded(tier, seed, stop_first=False):
    r = _b.bounded(tier, seed, stop_first)
    n6, extra6 = _primitive_array_check()
    r['evaluations'] = r.get('evaluations', 0) + n6
    r.setdefault('violations', []).extend(extra6)
    n, extra = _get_types_check()
    n3, extra3 = _word_pool_check()
    n4, extra4 = _hand_mutation_check(tier)
    n5, extra5 = _driver_loop_check(tier)
    n, extra = n + n3 + n4 + n5, extra + extra3 + extra4 + extra5
    r['evaluations'] = r.get('evaluations', 0) + n
    r.setdefault('violations', []).extend(extra)
    return r


def replay(payload):
    fi = payload.get('failing_input') or {}
    if str(fi.get('check', '')).startswith('bounded[word-pool'):
        n, out = _word_pool_check()
        for v in out:
            print('%s: %s (expected %s)' % (v['check'], v.get('actual'), v.get('expected')))
        return not out
    if str(fi.get('check', '')).startswith('bounded[primitive-array'):
        n, out = _primitive_array_check()
        for v in out:
            print('%s: %s(%s) in %s raises %s' % (v['check'], v.get('call'), v.get('query'), v.get('lang'), v.get('actual')))
        return not out
    if str(fi.get('check', '')).startswith('bounded[driver-loop'):
        n, out = _driver_loop_check('thorough')
        for v in out:
            print('%s: %s --transformations %s: %s' % (v['check'], v.get('lang'), v.get('t'), v.get('actual')))
        return not out
    if str(fi.get('check', '')).startswith('bounded[get-types'):
        n, out = _get_types_check()
        for v in out:
            print('%s: seed %s: %s' % (v['check'], v.get('seed'), v.get('actual')))
        return not out
    if str(fi.get('check', '')).startswith('bounded[hand-built'):
        n, out = _hand_mutation_check('thorough')
        for v in out:
            print('%s: %s %s erased=%s rng=%s: %s' % (v['check'], v['lang'], v['ident'], v['erased'], v['rng'], v.get('actual')))
        return not out
    return _b.replay(payload)
