"""C18 (bounded stand-in) - the pipeline never fails internally and always terminates.

Run-time evaluation of the property on the real code over a fixed, finite input list (languages x seeds x option
switches x depth limits, extended - never replaced - by VERIF_SEED); the oracle and the driver are in
specs/pipeline_ref.py.  Nothing here is a proof; the evidence level of this part is `exploration`.
"""
import os
import sys

HERE = os.path.dirname(os.path.dirname(os.path.abspath(__file__)))
REPO = os.environ.get('HEPH_REPO', '/repo')

ID = 'C18'
LEVEL = 'exploration'
ASSUMPTIONS = [
    'bounded only: "for every seed" is evaluated on the stated finite list; termination is a step budget per stage, '
    'not a proof; the per-visitor timeout of src/transformations/base.py cannot bound anything (it only sets a flag '
    'that is read after the visitor has returned) and is exercised only for absence of exceptions',
    'worker-pool mode of hephaestus.py and the compilers are outside this run (C15 / not applicable)',
]
NOT_UNDER_CONTRACT = ['src.generators.generator.Generator (bounded)', 'src.translators.* (bounded)',
                      'src.transformations.type_erasure.TypeErasure (bounded)',
                      'src.transformations.type_overwriting.TypeOverwriting (bounded)']


def _load():
    """purges every previously imported module of the code under test, then imports the reference (which itself
    imports the real code from REPO on every run()/replay(): random seeded before src.utils, counter-based
    Node.__hash__ installed before any node exists)"""
    for m in [k for k in sys.modules if k == 'src' or k.startswith('src.') or k == 'hephaestus'
              or k.startswith('hephaestus.')]:
        del sys.modules[m]
    if REPO not in sys.path:
        sys.path.insert(0, REPO)
    if HERE not in sys.path:
        sys.path.insert(0, HERE)
    os.environ.setdefault('HEPH_REPO', REPO)
    from specs import pipeline_ref
    return pipeline_ref


def bounded(tier, seed, stop_first=False):
    ref = _load()
    return ref.run('quick' if tier == 'quick' else 'thorough', seed, stop_first=stop_first)


def replay_search(obligation, qual, seed, tier):
    """a concrete failing input for a failed safety obligation reported under C18: only if the bounded pipeline run
    reaches a violation (reachability from a seed is not shown otherwise, DESIGN section 3)"""
    r = bounded(tier, seed, stop_first=True)
    v = r.get('violations') or []
    short = (qual or '').split('.')[-1]
    for x in v:
        if short and short in x.get('check', ''):
            return x
    return v[0] if v else None


def replay(payload):
    """re-execute a recorded failing input on the current tree; True if the property holds on it"""
    ref = _load()
    fi = payload.get('failing_input') if 'failing_input' in payload else payload
    if not fi or 'input' not in fi:
        print('replay file carries no concrete input (obligation %s); solver output: %s'
              % (payload.get('obligation'), (payload.get('solver') or {}).get('reason')))
        return False
    return ref.replay(fi)
