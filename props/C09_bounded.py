"""C09 (bounded part) - subtype search and irrelevant-type search return only what they promise.

Run-time evaluation of the contract of find_subtypes / find_irrelevant_type on the real functions, judged by the
independent declarative relation of specs/search_ref.py (never counted as proof)."""
import os
import sys

HERE = os.path.dirname(os.path.dirname(os.path.abspath(__file__)))
REPO = os.environ.get('HEPH_REPO', '/repo')

ID = 'C09'
LEVEL = 'exploration'
FUNCTIONS = ['src.ir.type_utils.find_subtypes', 'src.ir.type_utils.find_supertypes', 'src.ir.type_utils._find_types',
             'src.ir.type_utils._construct_related_types', 'src.ir.type_utils._find_candidate_type_args',
             'src.ir.type_utils._replace_type_argument', 'src.ir.type_utils.find_irrelevant_type',
             'src.ir.type_utils.get_irrelevant_parameterized_type']


def _load():
    for m in [k for k in sys.modules if k == 'src' or k.startswith('src.') or k == 'hephaestus']:
        del sys.modules[m]
    if REPO not in sys.path:
        sys.path.insert(0, REPO)
    sys.path.insert(0, HERE)
    import importlib
    from specs import search_ref
    importlib.reload(search_ref)
    # seeds `random` before src.utils is imported (word pool), installs the counter-based Node.__hash__ before any node
    # exists, imports the tree under verification and replaces utils.random.choice by the path enumerator
    search_ref.prepare()
    return search_ref


def bounded(tier, seed, stop_first=False):
    ref = _load()
    return ref.run(tier, seed, stop_first)


def replay_search(obligation, qual, seed, tier):
    tier = tier if tier in ('quick', 'thorough') else 'quick'
    if obligation and str(obligation).startswith('bounded['):
        # a named bounded check: the full run reports one witness per check name
        for x in bounded(tier, seed).get('violations') or []:
            if x.get('check') == obligation:
                return x
        return None
    v = bounded(tier, seed, stop_first=True).get('violations') or []
    return v[0] if v else None


def replay(payload):
    fi = payload.get('failing_input')
    if not fi:
        print('replay file carries no concrete input (obligation %s); solver output: %s'
              % (payload.get('obligation'), payload.get('solver', {}).get('reason')))
        return False
    ref = _load()
    return ref.replay(fi)


if __name__ == '__main__':
    import json
    tier = sys.argv[1] if len(sys.argv) > 1 else os.environ.get('VERIF_TIER', 'quick')
    res = bounded(tier, int(os.environ.get('VERIF_SEED', '0')))
    vs = res.pop('violations')
    print(json.dumps(res, indent=1, default=str))
    for v in vs:
        v = dict(v)
        if 'input_pickle' in v:
            v['input_pickle'] = '<%d chars>' % len(v['input_pickle'])
        print('VIOLATION', json.dumps(v, default=str))
