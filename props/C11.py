"""C11 - translation is a pure function of the program."""
import os
import sys

HERE = os.path.dirname(os.path.dirname(os.path.abspath(__file__)))
REPO = os.environ.get('HEPH_REPO', '/repo')
sys.path.insert(0, HERE)

ID = 'C11'
# modules whose functions must not keep state between calls (pyvc.statecheck.hidden_state_census, syntactic)
HIDDEN_STATE_MODULES = ['src.translators.java', 'src.translators.kotlin', 'src.translators.groovy', 'src.translators.scala', 'src.translators.base', 'src.ir.type_utils', 'src.ir.types', 'src.ir.ast', 'src.ir.builtins']
LEVEL = 'proof'
SIDECARS = []
FUNCTIONS = []
TRUSTED = [
    'state-reset obligations: the set of instance attributes a translator method can change is computed syntactically '
    '(assignment, augmented assignment, in-place mutator calls, subscript stores through self.<attr>); aliasing of '
    'attribute values between methods is not tracked beyond module-level containers',
    'frame obligations are decided by a syntactic analysis of the real AST (receiver root is `self` or a local bound to '
    'a freshly created object), not by the SMT back end',
]
ASSUMPTIONS = [
    'proved part: Java / Groovy reset discipline and the write frame of all four translators. Byte-identical output '
    'across histories (Kotlin/Scala save/restore discipline included) and "the program is not modified" through callee '
    'chains (e.g. IR helper methods called by the translators) are the bounded part',
]
NOT_UNDER_CONTRACT = ['the 31 visit_* methods of each translator (string building): bounded only']


def custom_proof(tier):
    from pyvc import frontend, statecheck
    fe = frontend.Frontend(REPO)
    out = []
    for mod, cls in (('src.translators.java', 'JavaTranslator'), ('src.translators.groovy', 'GroovyTranslator')):
        m = fe.module(mod)
        extra = [f for n, f in m.functions.items() if n == 'append_to']
        out += statecheck.reset_obligations(fe, mod, cls, extra_functions=extra)
    for mod, cls in (('src.translators.java', 'JavaTranslator'), ('src.translators.groovy', 'GroovyTranslator'),
                     ('src.translators.kotlin', 'KotlinTranslator'), ('src.translators.scala', 'ScalaTranslator')):
        out += statecheck.frame_obligations(fe, mod, cls, functions=[n for n in fe.module(mod).functions
                                                                     if n == 'append_to'])
    return out


try:
    from props import C11_bounded as _b
    bounded = _b.bounded
    replay_search = _b.replay_search
    replay = _b.replay
except ImportError:
    pass
