"""C16 - the symbol table behaves like a scoped map."""
import os
import random
import sys

HERE = os.path.dirname(os.path.dirname(os.path.abspath(__file__)))
REPO = os.environ.get('HEPH_REPO', '/repo')

ID = 'C16'
# modules whose functions must not keep state between calls (pyvc.statecheck.hidden_state_census, syntactic)
HIDDEN_STATE_MODULES = ['src.ir.context']
LEVEL = 'proof'
SIDECARS = ['context']
_M = 'src.ir.context.Context.'
FUNCTIONS = [_M + m for m in (
    '__init__', '_add_entity', '_remove_entity', 'add_type', 'add_func', 'add_lambda', 'add_var', 'add_class',
    'remove_type', 'remove_var', 'remove_func', 'remove_lambda', 'remove_class', 'remove_namespace',
    '_get_declarations', 'get_types', 'get_funcs', 'get_lambdas', 'get_vars', 'get_classes', 'get_declarations',
    'find_namespaces', 'get_decl', 'get_lambda', 'get_namespace', 'get_parent', 'get_parent_class',
    'get_declarations_in', '_get_declarations_glob', 'get_namespaces_decls')] + [
    'src.utils.prefix_lst', 'src.ir.context.get_decl.stop_cond', 'src.ir.context.get_decl']
TRUSTED = [
    'declarations are modelled as an abstract sort: == / hash of a declaration is a congruence (identity for AST '
    'nodes); structurally-equal type objects added in two namespaces share one reverse-index entry (DESIGN C16 (ii))',
    'representation exposure: callers do not mutate the dictionaries returned by the get_* queries',
    'history quantifier by induction: CtxInv holds after __init__ and is preserved by every mutator; every query is a '
    'function of the abstract view (each proved here per operation)',
]
ASSUMPTIONS = [
    'termination of the two worklist loops (_get_declarations_glob, get_namespaces_decls) is not proved (no visited set; terminates because child namespaces are strictly longer and only finitely many exist)',
]
NOT_UNDER_CONTRACT = ['src.ir.context.Context.get_decl_type']


def _load():
    for m in [k for k in sys.modules if k == 'src' or k.startswith('src.')]:
        del sys.modules[m]
    if REPO not in sys.path:
        sys.path.insert(0, REPO)
    sys.path.insert(0, HERE)
    import importlib
    importlib.import_module('src.ir.ast')
    ctxmod = importlib.import_module('src.ir.context')
    from specs import ctx_ref
    return ctxmod, ctx_ref


class D:
    """identity-compared declaration"""
    def __init__(s, n):
        s.n = n

    def __repr__(s):
        return 'D%d' % s.n


ADD = {'types': 'add_type', 'funcs': 'add_func', 'lambdas': 'add_lambda', 'vars': 'add_var', 'classes': 'add_class'}
REM = {'types': 'remove_type', 'funcs': 'remove_func', 'lambdas': 'remove_lambda', 'vars': 'remove_var',
       'classes': 'remove_class'}
GET = {'types': 'get_types', 'funcs': 'get_funcs', 'lambdas': 'get_lambdas', 'vars': 'get_vars',
       'classes': 'get_classes', 'decls': 'get_declarations'}
NSS = [('global',), ('global', 'f'), ('global', 'K'), ('global', 'K', 'g'), ('global', 'f', 'a'), ('global', 'zz')]
NAMES = ['a', 'b', 'c', 'f', 'g', 'K']


def run_history(ctxmod, ref, ops, queries=True):
    """ops: list of ('add'|'rem', kind, ns, name, is_none).  returns a disagreement tuple or None"""
    c = ctxmod.Context()
    m = ref.Ref()
    decls = []
    cnt = 0
    for step, (op, kind, ns, name, isnone) in enumerate(ops):
        if op == 'add':
            cnt += 1
            v = None if isnone else D(cnt)
            if v is not None:
                decls.append(v)
            getattr(c, ADD[kind])(ns, name, v)
            m.add(kind, ns, name, v)
        else:
            getattr(c, REM[kind])(ns, name)
            m.rem(kind, ns, name)
        for q in NSS + [('global', 'f', 'a', 'deep')]:
            for k in ref.KINDS:
                for none in (False, True):
                    got = getattr(c, GET[k])(q, only_current=True, none=none)
                    if list(got.items()) != m.current(q, k, none):
                        return ('current-namespace query', step, q, k, none, repr(list(got.items())), repr(m.current(q, k, none)))
                    got = getattr(c, GET[k])(q, none=none)
                    exp = m.path(q, k, none) if len(q) > 1 else dict(m.current(q, k, none))
                    if dict(got) != exp:
                        return ('enclosing-scope query', step, q, k, none, repr(dict(got)), repr(exp))
                    got = getattr(c, GET[k])(q, glob=True, none=none)
                    g = m.glob(q, k)
                    if not all(any(got[kk] is v for v in g.get(kk, [])) for kk in got):
                        return ('global query value', step, q, k, none, repr(dict(got)), repr(g))
                    if none and set(got) != set(g):
                        return ('global query keys', step, q, k, none, repr(sorted(got)), repr(sorted(g)))
                    if not none and not set(got) <= {kk for kk, vs in g.items() if any(v is not None for v in vs)}:
                        return ('global query keys (real)', step, q, k, none, repr(sorted(got)), repr(g))
            for k in ('funcs', 'classes', 'vars'):
                for nm in (NAMES[step % len(NAMES)], NAMES[(step + 3) % len(NAMES)] + '_' + k):
                    for gl in (True, False):
                        got = c.get_namespaces_decls(q, nm, k, glob=gl)
                        exp = ref.ns_decls(m, q, nm, k, gl)
                        if len(got) != len(exp) or not all(any(a[0] == b[0] and a[1] is b[1] for b in exp) for a in got):
                            return ('get_namespaces_decls', step, q, (nm, k), gl, repr(sorted(map(repr, got))), repr(exp))
            for nm in NAMES:
                for n2 in (nm, nm + '_vars', nm + '_funcs', nm + '_classes'):
                    a = ctxmod.get_decl(c, q, n2)
                    b = m.lookup(q, n2)
                    if (a is None) != (b is None) or (a and (a[0] != b[0] or a[1] is not b[1])):
                        return ('name lookup', step, q, n2, None, repr(a), repr(b))
        for d in decls:
            if c.get_namespace(d) != m.rev.get(id(d)):
                return ('reverse lookup', step, repr(d), None, None, repr(c.get_namespace(d)), repr(m.rev.get(id(d))))
    return None


def gen_ops(rnd, steps, collide):
    ops = []
    for _ in range(steps):
        kind = rnd.choice(list(ADD))
        name = rnd.choice(NAMES)
        if not collide:
            name = name + '_' + kind
        ns = rnd.choice(NSS)
        if rnd.random() < 0.7:
            ops.append(('add', kind, ns, name, rnd.random() < 0.1))
        else:
            ops.append(('rem', kind, ns, name, False))
    return ops


def _type_parameter_scenario(ctxmod):
    import importlib
    tp = importlib.import_module('src.ir.types')
    kt = importlib.import_module('src.ir.kotlin_types')
    c = ctxmod.Context()
    f, g = ('global', 'f'), ('global', 'g')
    t1, t2 = tp.TypeParameter('T'), tp.TypeParameter('T', bound=kt.Number)
    c.add_type(f, 'T', t1)
    c.add_type(g, 'T', t2)
    if c.get_namespace(t1) != f or c.get_namespace(t2) != g:
        return 'after both adds: namespace of T(f) = %r, of T(g) = %r' % (c.get_namespace(t1), c.get_namespace(t2))
    if c.get_types(f, only_current=True).get('T') is not t1 or c.get_types(g, only_current=True).get('T') is not t2:
        return 'forward lookup returns the wrong type parameter'
    c.remove_type(g, 'T')
    if c.get_namespace(t1) != f:
        return 'after remove_type(g, T): namespace of T(f) = %r' % (c.get_namespace(t1),)
    if c.get_namespace(t2) is not None:
        return 'after remove_type(g, T): the removed declaration still maps to %r' % (c.get_namespace(t2),)
    return None


def bounded(tier, seed, stop_first=False):
    ctxmod, ref = _load()
    n = 40 if tier == 'quick' else 600
    steps = 25 if tier == 'quick' else 60
    rnd = random.Random(seed)
    evals = 0
    seen = set()
    violations = []
    samples = []
    for i in range(n):
        collide = (i % 2 == 1)
        ops = gen_ops(rnd, steps, collide)
        evals += 1
        seen.add(repr(ops))
        if len(samples) < 2:
            samples.append([list(map(str, o)) for o in ops[:6]])
        bad = run_history(ctxmod, ref, ops)
        if bad and any(v['what'] == bad[0] for v in violations):
            continue
        if bad:
            # shrink: shortest prefix that still fails
            k = bad[1] + 1
            violations.append(dict(check='bounded[history:%s]' % bad[0], function='src.ir.context.Context',
                                   ops=repr(ops[:k]), what=bad[0], query=repr(bad[2:5]), actual=bad[5], expected=bad[6]))
            if stop_first or len(violations) >= 3:
                break
    # real IR declarations as keys of the reverse index: distinct type parameters that share name and variance (T of f, and
    # T <: Number of g) are distinct declarations
    evals += 1
    try:
        bad = _type_parameter_scenario(ctxmod)
    except Exception as e:
        bad = 'exception %s: %s' % (type(e).__name__, e)
    if bad:
        violations.append(dict(check='bounded[reverse-lookup:same-named-type-parameters]', function='src.ir.context.Context',
                               ops='add_type(f, T); add_type(g, T <: Number); get_namespace; remove_type(g, T); get_namespace',
                               what='reverse lookup', query='-', actual=bad, expected='each declaration maps to its own namespace '
                               'until it is removed'))
    return dict(evaluations=evals, distinct_nontrivial=len(seen),
                rule='%d random operation histories of %d add/remove steps over 6 namespaces x 5 kinds (with and without '
                     'cross-kind name collisions, 10%% artificial None declarations); after every step all current / '
                     'enclosing / global queries of all 6 kinds, name lookup from 7 namespaces and reverse lookup are '
                     'compared with specs/ctx_ref.py; a history is non-trivial if it has >= 1 add (all are), distinct by '
                     'operation list' % (n, steps),
                samples=samples, violations=violations,
                note='engine cross-check for the proved operations (never counted as proof)')


def replay_search(obligation, qual, seed, tier):
    r = bounded('thorough', seed, stop_first=True)
    v = r.get('violations') or []
    return v[0] if v else None


def replay(payload):
    ctxmod, ref = _load()
    fi = payload.get('failing_input')
    if not fi:
        print('replay file carries no concrete input (obligation %s); solver output: %s'
              % (payload.get('obligation'), payload.get('solver', {}).get('reason')))
        return False
    if str(fi.get('check', '')).startswith('bounded[reverse-lookup'):
        bad = _type_parameter_scenario(ctxmod)
        if bad:
            print('same-named type parameters: ' + bad)
        return not bad
    ops = eval(fi['ops'], {})
    bad = run_history(ctxmod, ref, ops)
    if bad:
        print('history %r: %s disagrees: got %s expected %s' % (ops, bad[0], bad[5], bad[6]))
    return not bad
