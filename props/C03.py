"""C03 - type erasure only removes inferable type information."""
import os
import sys

HERE = os.path.dirname(os.path.dirname(os.path.abspath(__file__)))
REPO = os.environ.get('HEPH_REPO', '/repo')
sys.path.insert(0, HERE)

ID = 'C03'
# modules whose functions must not keep state between calls (pyvc.statecheck.hidden_state_census, syntactic)
HIDDEN_STATE_MODULES = ['src.transformations.type_erasure', 'src.analysis.type_dependency_analysis', 'src.transformations.base']
LEVEL = 'proof'
SIDECARS = ['types_sub', 'types_ctor', 'mutations']
FUNCTIONS = [
    'src.transformations.type_erasure.TypeErasure.visit_func_decl',
    'src.ir.ast.VariableDeclaration.omit_type',
    'src.ir.ast.FunctionDeclaration.omit_type',
]
TRUSTED = [
    'slice mode (DESIGN 2.7) for TypeErasure.visit_func_decl: statements outside the subset are havocked; obligations sit at '
    'the two attribute stores and at the omit_type() call',
    'write census: syntactic analysis of the real AST of type_erasure.py, transformations/base.py and '
    'type_dependency_analysis.py (attribute / subscript stores, augmented assignments, deletions, in-place mutator calls, '
    'calls of IR methods that transitively write through self); aliasing between locals is not tracked beyond "bound to a '
    'fresh object (literal, comprehension, copy, deepcopy)"; the analysis\' own type graph (names type_graph, c_type_graph) '
    'and the cached callee link FunctionCall.type_parameters are allowed writes',
    'DefaultVisitorUpdate._visit_node (src/ir/visitors.py) re-installs the children it visited: update_children with the '
    'unchanged children is the identity (not proved: 23 overrides)',
    'attribute reads, isinstance, len, getattr, str have no side effects',
]
ASSUMPTIONS = [
    'proved: first sentence of the statement as a write frame -- the erasure writes into the program only by switching '
    'can_infer_type_args of an instantiation ON and by calling omit_type() on the declaration of a candidate node, and '
    'omit_type() (both overrides) sets exactly the declared type (var_type / ret_type) to None and nothing else; no other '
    'store, mutator call or IR-mutating method call occurs in the three modules. '
    'NOT proved (bounded): second sentence -- the removed annotations are what a compiler infers, i.e. the meaning of '
    'is_combination_feasible and of the type dependency graph',
]
NOT_UNDER_CONTRACT = ['src.analysis.type_dependency_analysis.is_combination_feasible (meaning: bounded)',
                      'src.analysis.type_dependency_analysis.TypeDependencyAnalysis (write census only)',
                      'src.ir.visitors.DefaultVisitorUpdate', 'the 23 update_children overrides of src/ir/ast.py']


# the functions whose slice contracts carry the site obligations of the allowed writes / mutator calls
SITE_FUNCTIONS = {'src.transformations.type_erasure.TypeErasure.visit_func_decl'}


def custom_proof(tier):
    from pyvc import frontend, statecheck
    fe = frontend.Frontend(REPO)
    mut = statecheck.ir_mutator_names(fe)
    out = []
    for mod, allowed, roots, calls in (
            ('src.transformations.type_erasure', {'can_infer_type_args'}, ('type_graph', 'c_type_graph'), {'omit_type'}),
            ('src.transformations.base', set(), ('timeouted',), set()),
            ('src.analysis.type_dependency_analysis', {'type_parameters'}, ('type_graph',), set())):
        # (the cached callee link of the analysis is a trusted write without site obligation: allowed anywhere in its module)
        sf = SITE_FUNCTIONS if mod == 'src.transformations.type_erasure' else None
        out += statecheck.store_census(fe, mod, allowed, allowed_roots=roots, site_functions=sf)
        out += statecheck.mutator_call_census(fe, mod, calls, mut, site_functions=sf)
    # the feasibility check consults the set of omitted declarations only after it is complete (a type argument may be
    # omitted only if the declaration that would determine it is not omitted as well, whatever the order of the combination)
    out += statecheck.phase_separation(fe, 'src.analysis.type_dependency_analysis.is_combination_feasible', 'removed_decls')
    return out


from props import C03_bounded as _b   # noqa: E402
bounded = _b.bounded
replay_search = _b.replay_search
replay = _b.replay
