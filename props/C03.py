"""C03 - type erasure only removes inferable type information."""
import os
import sys

HERE = os.path.dirname(os.path.dirname(os.path.abspath(__file__)))
sys.path.insert(0, HERE)

ID = 'C03'
LEVEL = 'exploration'
SIDECARS = []
FUNCTIONS = []
TRUSTED = []
ASSUMPTIONS = [
    'bounded stand-in only (labelled bounded, nothing is counted as proved): the real mutation is run on hand-built and '
    'generated programs in the four languages and judged by an independent oracle written from the property statement '
    '(structural before/after diff of every node attribute, three-valued local type inference, declarative subtyping with '
    'assignment conversions over the program\'s class table, javac where a Java translation exists)',
]
NOT_UNDER_CONTRACT = ['src.transformations.type_erasure', 'src.transformations.type_overwriting',
                      'src.analysis.type_dependency_analysis']

from props import C03_bounded as _b   # noqa: E402
bounded = _b.bounded
replay_search = _b.replay_search
replay = _b.replay
