"""C19 - graph queries agree with their textbook definitions."""
import os
import random
import sys

HERE = os.path.dirname(os.path.dirname(os.path.abspath(__file__)))
REPO = os.environ.get('HEPH_REPO', '/repo')

ID = 'C19'
# modules whose functions must not keep state between calls (pyvc.statecheck.hidden_state_census, syntactic)
HIDDEN_STATE_MODULES = ['src.graph_utils']
LEVEL = 'proof'
SIDECARS = ['graph_utils']
FUNCTIONS = [
    'src.graph_utils.reachable',
    'src.graph_utils.bi_reachable',
    'src.graph_utils.connected',
    'src.graph_utils.dfs',
    'src.graph_utils.dfs._dfs',
    'src.graph_utils.find_all_bi_reachable',
    'src.graph_utils.find_all_connected',
    'src.graph_utils.none_reachable',
    'src.graph_utils.none_connected',
    'src.graph_utils.find_sources',
    'src.graph_utils.find_all_paths',
    'src.graph_utils.find_longest_paths.exist',
    'src.graph_utils.find_longest_paths',
    'src.graph_utils.find_all_reachable',
]
TRUSTED = [
    'vertex equality/hash is a congruence (abstract sort Node: == is identity of the abstract value)',
    'RReach (left-generated closure, find_sources) and Reach (right-generated) are the same relation '
    '(proved in lean/Reach.lean, re-checked by `lean` in the thorough tier; not used across contracts)',
    'find_all_reachable uses ONE lemma the solver cannot derive (it needs induction): in a finite list of sequences every '
    'member is, or is a proper prefix of, a member that is a proper prefix of no member (ghost MaxPrefixLemma; proved as '
    'theorem exists_maximal_extension in lean/MaxPrefix.lean, re-checked by `lean` in the thorough tier; the correspondence '
    'between the Lean statement over List (List a) and the SMT axiom over Seq[Seq[Node]] is by hand)',
    'find_all_reachable uses a second lemma that needs induction: a vertex is reachable (reflexive-transitive closure of the '
    'edge relation) iff it lies on a simple path from the start (ghost ReachIsOnSimplePath; proved as theorem '
    'reach_iff_on_simple_path in lean/SimplePath.lean for an arbitrary relation, re-checked by `lean` in the thorough tier; '
    'correspondence with PathExt by hand)',
]
ASSUMPTIONS = [
    'find_all_reachable is proved to return exactly the vertices that lie on a simple path starting at the vertex (the '
    'union over ALL simple paths, not only the maximal ones it iterates over) and hence exactly the reflexive-transitive '
    'closure TReach of the edge relation (targets need not be keys); the step from one to the other (every reachable vertex '
    'is reachable by a simple path: loop erasure) is the lemma reach_iff_on_simple_path of lean/SimplePath.lean; '
    'find_all_paths is proved partially correct (exactly the simple paths extending the given prefix; termination is not '
    'proved); all queries are also compared with the reference on all small digraphs (bounded cross-check)',
    'find_longest_paths: its result is exactly the elements of find_all_paths(graph, vertex) which are not a proper '
    'prefix of another element',
]
NOT_UNDER_CONTRACT = ['src.analysis.type_dependency_analysis.is_combination_feasible (only consumes dfs; meaning is C03 residual)']


def custom_proof(tier):
    """thorough tier: re-check the two Lean files (Reach = RReach; maximal-extension lemma used by find_all_reachable) with
    the installed Lean + Mathlib"""
    if tier != 'thorough':
        return []
    import subprocess
    import time
    out = []
    for fname, thm in (('Reach.lean', 'reach_iff_rreach'), ('MaxPrefix.lean', 'exists_maximal_extension'),
                       ('SimplePath.lean', 'reach_iff_on_simple_path')):
        t0 = time.time()
        name = 'lean/%s/%s' % (fname, thm)
        try:
            p = subprocess.run(['lean', os.path.join(HERE, 'lean', fname)], capture_output=True, text=True, timeout=900)
            txt = p.stdout + p.stderr
            ok = p.returncode == 0 and 'error' not in txt and 'sorry' not in txt
            out.append(dict(name=name, function='lean/' + fname, lineno=0, kind='proof', status='proved' if ok else 'failed',
                            secs=time.time() - t0, backend='lean 4 + Mathlib', reason=txt.strip()[:300]))
        except Exception as e:      # lean missing / timeout: undecided, never a violation
            out.append(dict(name=name, function='lean/' + fname, lineno=0, kind='proof', status='undecided',
                            secs=time.time() - t0, backend='lean', reason='could not run lean: %r' % e))
    return out


def _load():
    for m in [k for k in sys.modules if k == 'src' or k.startswith('src.')]:
        del sys.modules[m]
    if REPO not in sys.path:
        sys.path.insert(0, REPO)
    import importlib
    gu = importlib.import_module('src.graph_utils')
    sys.path.insert(0, HERE)
    from specs import graph_ref
    return gu, graph_ref


class E:
    """edge object with a .target, as dfs expects"""
    __slots__ = ('target',)

    def __init__(self, t):
        self.target = t

    def __repr__(self):
        return '->%r' % (self.target,)


def canon_paths(ps):
    return sorted((tuple(p) for p in ps), key=repr)


def checks(gu, ref):
    """name -> function(graph, universe) yielding (args, expected, actual) on disagreement"""
    def pairwise(real, spec):
        def run(g, uni):
            for s in uni:
                for d in uni:
                    a, e = real(g, s, d), spec(g, s, d)
                    if a != e:
                        yield (s, d), e, a
        return run

    def per_vertex(real, spec, keys_only=False, conv=lambda x: x):
        def run(g, uni):
            for v in (list(g) if keys_only else uni):
                try:
                    a = conv(real(g, v))
                except Exception as ex:  # an exception is a disagreement too
                    a = 'EXC ' + repr(ex)
                e = conv(spec(g, v))
                if a != e:
                    yield (v,), e, a
        return run

    def dfs_run(g, uni):
        eg = {k: [E(t) for t in adj] for k, adj in g.items()}
        for s in uni:
            a, e = gu.dfs(eg, s), ref.dfs(eg, s)
            if a != e:
                yield (s,), sorted(e, key=repr), sorted(a, key=repr)

    def dfs_equal_source_run(g, uni):
        # vertices that are equal but not identical objects (as the node tuples of the type graph are): the source handed
        # to dfs is a fresh, equal object
        eg = {(k,): [E((t,)) for t in adj] for k, adj in g.items()}
        for s in uni:
            a, e = gu.dfs(eg, tuple([s])), ref.dfs(eg, (s,))
            if a != e:
                yield (s,), sorted(e, key=repr), sorted(a, key=repr)

    def none_run(real, spec):
        def run(g, uni):
            for v in uni:
                for nn in uni:
                    a, e = real(g, v, nn), spec(g, v, nn)
                    if a != e:
                        yield (v, nn), e, a
        return run

    def sources_run(g, uni):
        for v in g:
            a = gu.find_sources(g, v)
            e = ref.find_sources(g, v)
            if set(a) != e or len(a) != len(set(a)):
                yield (v,), sorted(e, key=repr), a

    def longest_run(g, uni):
        for v in uni:
            a = [tuple(p) for p in gu.find_longest_paths(g, v)]
            e = ref.maximal(ref.simple_paths(g, v))
            if sorted(a, key=repr) != sorted(e, key=repr):
                yield (v,), sorted(e, key=repr), sorted(a, key=repr)

    return {
        'reachable': pairwise(gu.reachable, ref.reachable),
        'bi_reachable': pairwise(gu.bi_reachable, ref.bi_reachable),
        'connected': pairwise(gu.connected, ref.connected),
        'dfs': dfs_run,
        'dfs[equal-source]': dfs_equal_source_run,
        'find_all_bi_reachable': per_vertex(gu.find_all_bi_reachable, ref.find_all_bi_reachable),
        'find_all_connected': per_vertex(gu.find_all_connected, ref.find_all_connected),
        'none_reachable': none_run(gu.none_reachable, ref.none_reachable),
        'none_connected': none_run(gu.none_connected, ref.none_connected),
        'find_sources': sources_run,
        'find_all_paths': per_vertex(gu.find_all_paths, ref.simple_paths, conv=canon_paths),
        'find_longest_paths': longest_run,
        'find_all_reachable': per_vertex(gu.find_all_reachable, ref.all_reach),
    }


def graph_space(ref, tier, seed, deep=False):
    """(description, iterator of (graph, universe))"""
    def gen():
        for n in (1, 2, 3):
            vs = list(range(n))
            for g in ref.all_graphs(vs):
                yield g, vs
        for n in (1, 2):
            vs = list(range(n))
            for g in ref.all_graphs(vs, extra=['x']):
                yield g, vs + ['x']
        if tier == 'thorough' or deep:
            vs = list(range(4))
            for g in ref.all_graphs(vs):
                yield g, vs
            for g in ref.all_graphs([0, 1, 2], extra=['x']):
                yield g, [0, 1, 2, 'x']
        rnd = random.Random(seed)
        for _ in range(300 if tier == 'quick' else 3000):
            n = rnd.randint(4, 7)
            vs = list(range(n))
            g = {v: [w for w in vs + ['x'] if rnd.random() < 1.5 / n] for v in vs}
            for v in vs:
                rnd.shuffle(g[v])
            yield g, vs + ['x']
    desc = ('every digraph with <= %d vertices (self-loops, isolated vertices, cycles) and every digraph with <= %d '
            'key vertices plus one non-key target, exhaustively; plus %d random digraphs with 4-7 vertices (VERIF_SEED)'
            % ((4, 3, 3000) if tier == 'thorough' else (3, 2, 300)))
    return desc, gen()


FUNC_OF = {
    'src.graph_utils.find_longest_paths.exist': ['find_longest_paths'],
    'src.graph_utils.dfs._dfs': ['dfs', 'dfs[equal-source]'],
    'src.graph_utils.dfs': ['dfs', 'dfs[equal-source]'],
}


def bounded(tier, seed, only=None, stop_first=False, deep=False):
    gu, ref = _load()
    cs = checks(gu, ref)
    # the proved functions are included in the thorough tier as engine cross-check; quick: only the unproved ones
    # every function is compared with the reference in both tiers: for the proved ones this is a cross-check of the engine
    # and of what the contracts abstract from (object identity of vertices, state kept between calls)
    names = only or list(cs)
    desc, space = graph_space(ref, tier, seed, deep)
    evals = 0
    nontrivial = set()
    samples = []
    violations = []
    seen = set()
    for g, uni in space:
        key = repr(sorted((repr(k), v) for k, v in g.items()))
        for nm in names:
            evals += 1
            for args, exp, act in cs[nm](g, uni):
                if nm in seen and not stop_first:
                    continue
                seen.add(nm)
                violations.append(dict(check='bounded[%s]' % nm, function='src.graph_utils.' + nm, graph=repr(g),
                                       args=repr(args), expected=repr(exp), actual=repr(act)))
                if stop_first:
                    return dict(violations=violations)
        if any(g[v] for v in g):
            nontrivial.add(key)
        if len(samples) < 3 and len(g) == 3 and sum(len(a) for a in g.values()) >= 3:
            samples.append(dict(graph=repr(g), checked=names))
    return dict(evaluations=evals, distinct_nontrivial=len(nontrivial),
                rule=desc + '; each listed function compared with specs/graph_ref.py on every vertex (pair); a graph is '
                'non-trivial if it has at least one edge, distinct by adjacency',
                samples=samples, functions=names, exhaustive=True, violations=violations)


def replay_search(obligation, qual, seed, tier):
    short = qual.split('.')[-1]
    names = FUNC_OF.get(qual, [short])
    r = bounded('quick', seed, only=names, stop_first=True, deep=True)
    v = r.get('violations') or []
    return v[0] if v else None


def replay(payload):
    """re-execute a recorded failing input on the current tree; True if the property holds on it"""
    gu, ref = _load()
    fi = payload.get('failing_input')
    if not fi:
        print('replay file carries no concrete input (obligation %s); solver output:' % payload.get('obligation'))
        print(payload.get('solver', {}).get('reason'))
        return False
    g = eval(fi['graph'], {})
    nm = fi['check'][len('bounded['):-1]
    uni = list(g) + ['x']
    bad = list(checks(gu, ref)[nm](g, uni))
    for args, exp, act in bad[:3]:
        print('%s%r on %r: expected %r, got %r' % (nm, args, g, exp, act))
    return not bad
