"""Type identity: the __eq__ / __hash__ overrides of src/ir/types.py under contract (contracts/types_identity.py).
Shared by the properties that rely on what `==` means for IR types."""
SIDECARS = ['types_sub', 'types_ctor', 'types_identity']
FUNCTIONS = ['src.ir.types.' + f for f in (
    'TypeParameter.__eq__', 'WildCardType.__eq__', 'ParameterizedType.__eq__', 'TypeConstructor.__eq__',
    'SimpleClassifier.__eq__', 'Builtin.__eq__',
    'TypeParameter.__hash__', 'WildCardType.__hash__', 'ParameterizedType.__hash__', 'Builtin.__hash__')]
NOTE = ('type identity: for two types of the same class, == compares exactly the identifying parts (name, variance, bound / '
        'supertypes, constructor class and parameters, type arguments) and the hash is a function of a subset of them '
        '(contracts/types_identity.py; the postconditions restate the intended identity, so any change of these methods is '
        'reported)')
