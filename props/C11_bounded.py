"""C11 - bounded stand-in: translation is a pure function of the program (run-time evaluation of the top-level
contract on the real translators; reference and driver in specs/transl_ref.py)."""
import os
import sys

HERE = os.path.dirname(os.path.dirname(os.path.abspath(__file__)))
REPO = os.environ.get('HEPH_REPO', '/repo')

ID = 'C11'


def _load():
    """purge previously imported code under test and import specs.transl_ref (which imports the real code from
    REPO deterministically: global RNG seeded before src.utils, counter-based Node.__hash__ installed first)"""
    for m in [k for k in sys.modules if k == 'src' or k.startswith('src.') or k == 'hephaestus']:
        del sys.modules[m]
    if REPO not in sys.path:
        sys.path.insert(0, REPO)
    if HERE not in sys.path:
        sys.path.insert(0, HERE)
    os.environ['HEPH_REPO'] = REPO          # the worker processes of the driver read it
    from specs import transl_ref
    return transl_ref


def bounded(tier, seed, stop_first=False):
    ref = _load()
    r = ref.run(tier, seed, stop_first=stop_first)
    r['note'] = ('bounded stand-in for "byte-identical text across histories" and "the program is not modified" '
                 '(never counted as proof); reference = first translation by a fresh translator object')
    return r


def replay_search(obligation, qual, seed, tier):
    r = bounded(tier if tier in ('quick', 'thorough') else 'quick', seed, stop_first=True)
    v = r.get('violations') or []
    return v[0] if v else None


def replay(payload):
    ref = _load()
    fi = payload.get('failing_input')
    if not fi:
        print('replay file carries no concrete input (obligation %s); solver output: %s'
              % (payload.get('obligation'), payload.get('solver', {}).get('reason')))
        return False
    return ref.replay(fi)


if __name__ == '__main__':
    import json
    tier = sys.argv[1] if len(sys.argv) > 1 else os.environ.get('VERIF_TIER', 'quick')
    res = bounded(tier, int(os.environ.get('VERIF_SEED', '0')))
    print(json.dumps({k: v for k, v in res.items() if k not in ('rule',)}, indent=1, default=str))
    print(res['rule'])
    sys.exit(1 if res['violations'] else 0)
