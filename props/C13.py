"""C13 - saved programs replay faithfully (bounded stand-in only: pickle is outside any contract in reach)."""
import os
import sys

HERE = os.path.dirname(os.path.dirname(os.path.abspath(__file__)))
sys.path.insert(0, HERE)

from props import _identity  # noqa: E402

ID = 'C13'
LEVEL = 'exploration'
SIDECARS = ['replay_io']
FUNCTIONS = ['src.utils.dump_program', 'src.utils.load_program', 'hephaestus.save_program',
             'src.modules.processor.ProgramProcessor.get_program']
SIDECARS = SIDECARS + [x for x in _identity.SIDECARS if x not in SIDECARS]
FUNCTIONS = FUNCTIONS + [f for f in _identity.FUNCTIONS if f not in FUNCTIONS]
TRUSTED = [
    'the pickle library: Unpickled(Pickled(p)) is indistinguishable from p (uninterpreted ghosts; this round-trip law is the '
    'property itself and is decided ONLY by the bounded part); pickle.dump / pickle.load / open as external contracts over a '
    'ghost disk',
    'save_program and ProgramProcessor.get_program are verified in slice mode (mkdir, save_text, generate_program havocked)',
]
ASSUMPTIONS = [
    'proved (the glue around pickle, for every path and program): dump_program pickles the program object it is given -- '
    'itself -- in binary write mode into exactly the file named and touches no other file; load_program unpickles exactly the '
    'content of the file named (binary read mode) and returns it unchanged; save_program dumps THE program whose text it '
    'saves into <file>.bin next to the source; with --replay the processor reads exactly the file given and hands the '
    'read-back on unchanged; no class under src/ customises pickling (syntactic census).  NOT proved -- bounded: the '
    'round-trip law itself (read-back translates identically in every language, mutations replay, re-dump stable): '
    'evaluated at run time on generated, erased and overwritten programs of a fixed seed list in four languages',
]
NOT_UNDER_CONTRACT = ['pickle (external library)']


def custom_proof(tier):
    """default pickling is what the trusted round-trip law is about: no class under src/ overrides it (syntactic)"""
    from pyvc import statecheck, frontend
    return statecheck.pickle_hook_census(frontend.Frontend(os.environ.get('HEPH_REPO', '/repo')))

from props import C13_bounded as _b   # noqa: E402
bounded = _b.bounded
replay_search = _b.replay_search
replay = _b.replay
