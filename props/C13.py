"""C13 - saved programs replay faithfully (bounded stand-in only: pickle is outside any contract in reach)."""
import os
import sys

HERE = os.path.dirname(os.path.dirname(os.path.abspath(__file__)))
sys.path.insert(0, HERE)

from props import _identity  # noqa: E402

ID = 'C13'
LEVEL = 'exploration'
SIDECARS = []
FUNCTIONS = []
SIDECARS = SIDECARS + [x for x in _identity.SIDECARS if x not in SIDECARS]
FUNCTIONS = FUNCTIONS + [f for f in _identity.FUNCTIONS if f not in FUNCTIONS]
TRUSTED = []
ASSUMPTIONS = [
    'bounded stand-in only (labelled bounded, nothing is counted as proved): the pickle protocol is an external library; the '
    'contract of dump_program / load_program (read-back indistinguishable from the original) is evaluated at run time on '
    'generated, erased and overwritten programs of a fixed seed list in four languages',
]
NOT_UNDER_CONTRACT = ['src.utils.dump_program', 'src.utils.load_program', 'src.modules.processor.ProgramProcessor.get_program']

from props import C13_bounded as _b   # noqa: E402
bounded = _b.bounded
replay_search = _b.replay_search
replay = _b.replay
