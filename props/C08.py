"""C08 - instantiation helpers pick type arguments within bounds and allowed variance."""
import os
import sys

HERE = os.path.dirname(os.path.dirname(os.path.abspath(__file__)))
sys.path.insert(0, HERE)

ID = 'C08'
# modules whose functions must not keep state between calls (pyvc.statecheck.hidden_state_census, syntactic)
HIDDEN_STATE_MODULES = ['src.ir.type_utils', 'src.ir.types']
LEVEL = 'proof'
SIDECARS = ['types_sub', 'types_ctor', 'cfg_common', 'inst_helpers']
FUNCTIONS = [
    'src.ir.type_utils._get_type_arg_variance',
    'src.ir.type_utils._get_available_types',
    'src.ir.type_utils._compute_type_variable_assignments',
    'src.ir.type_utils.instantiate_type_constructor',
    'src.ir.type_utils.instantiate_parameterized_function',
    'src.ir.types.TypeConstructor.new',
]
TRUSTED = [
    'slice mode (DESIGN 2.7) for _compute_type_variable_assignments / instantiate_type_constructor / TypeConstructor.new: '
    'statements outside the subset (subtype search, recursion into nested instantiations) are havocked; obligations sit at '
    'the projection construction site, at t_args.append(...) and at the call that forwards the variance choices',
    'random.choice returns a member of its non-empty argument; box_type() of a built-in returns a non-primitive built-in',
    'TypeParameter.has_bound_of is trusted (its body calls get_type_variables(None))',
    'cfg and the Variance constants are immutable during instantiation',
]
ASSUMPTIONS = [
    'proved: where a use-site projection may appear (caller choices, declared variance, global switches, never on a '
    'parameter a later bound mentions), no uninstantiated generic class as argument, disable_variance / PECS forwarding, '
    'pool filtering. "each argument is a subtype of the bound after substituting the other arguments", "exactly one '
    'argument per parameter" and "requested assignments are kept" are the bounded part',
]
NOT_UNDER_CONTRACT = ['src.ir.type_utils.update_type_var_bound_rec', 'src.ir.type_utils.choose_type']

def custom_proof(tier):
    """the global switches reach cfg: symbolic execution of the configuration block of src/args.py (z3)"""
    from pyvc import statecheck, frontend
    repo = os.environ.get('HEPH_REPO', '/repo')
    out = statecheck.switch_wiring_obligations(repo)[:2]
    # the site obligations at t_args.append(...) speak about the RESULT only if every return hands out that accumulator
    out += statecheck.result_through_sites(frontend.Frontend(repo), 'src.ir.type_utils._compute_type_variable_assignments',
                                           't_args', 0, allowed_callees=('update_type_var_bound_rec',))
    return out


from props import C08_bounded as _b   # noqa: E402
replay_search = _b.replay_search


def bounded(tier, seed, stop_first=False):
    """the instantiation harness, plus the reference substitution of C07 (specs/subst_ref.py): the bound an argument is
    checked against is the declared bound AFTER SUBSTITUTING the other arguments, so a substitution that misses an
    occurrence breaks C08 as well"""
    r = _b.bounded(tier, seed, stop_first)
    try:
        from props import C07 as _c07
        sub = _c07.bounded('quick', seed)
        r['evaluations'] = r.get('evaluations', 0) + sub.get('evaluations', 0)
        for v in sub.get('violations', []):
            v = dict(v, check=v['check'].replace('bounded[', 'bounded[substitution:'))
            r.setdefault('violations', []).append(v)
    except Exception as e:      # the C07 reference is optional here
        r.setdefault('notes', []).append('substitution reference not run: %r' % (e,))
    return r


def replay(payload):
    fi = payload.get('failing_input') or {}
    if 'bounded[substitution:' in str(fi.get('check', '')):
        from props import C07 as _c07
        return _c07.replay(dict(payload, failing_input=dict(fi, check=fi['check'].replace('bounded[substitution:', 'bounded['))))
    return _b.replay(payload)
