"""C09 - subtype search and irrelevant-type search return only what they promise."""
import os
import sys

HERE = os.path.dirname(os.path.dirname(os.path.abspath(__file__)))
sys.path.insert(0, HERE)

from props import _identity  # noqa: E402

ID = 'C09'
# modules whose functions must not keep state between calls (pyvc.statecheck.hidden_state_census, syntactic)
HIDDEN_STATE_MODULES = ['src.ir.type_utils', 'src.ir.types']
LEVEL = 'exploration'
SIDECARS = []
FUNCTIONS = []
SIDECARS = SIDECARS + [x for x in _identity.SIDECARS if x not in SIDECARS]
FUNCTIONS = FUNCTIONS + [f for f in _identity.FUNCTIONS if f not in FUNCTIONS]
TRUSTED = []
ASSUMPTIONS = [
    'bounded stand-in only (labelled bounded, nothing is counted as proved): the searches are heuristic and randomised; '
    'their results are compared with an independent declarative subtype relation on hand-written and random class tables '
    '(all random paths enumerated where feasible) and on every query the generator / TypeOverwriting issue for fixed seeds',
]
NOT_UNDER_CONTRACT = ['src.ir.type_utils._find_types', 'find_subtypes', 'find_supertypes', 'find_irrelevant_type',
                      'get_irrelevant_parameterized_type', '_construct_related_types', '_find_candidate_type_args (C17 sites only)']

from props import C09_bounded as _b   # noqa: E402
bounded = _b.bounded
replay_search = _b.replay_search
replay = _b.replay
