"""C09 - subtype search and irrelevant-type search return only what they promise."""
import os
import sys

HERE = os.path.dirname(os.path.dirname(os.path.abspath(__file__)))
sys.path.insert(0, HERE)

from props import _identity  # noqa: E402

ID = 'C09'
# modules whose functions must not keep state between calls (pyvc.statecheck.hidden_state_census, syntactic)
HIDDEN_STATE_MODULES = ['src.ir.type_utils', 'src.ir.types']
LEVEL = 'proof'
SIDECARS = ['types_sub', 'types_ctor', 'cfg_common', 'search']
FUNCTIONS = [
    'src.ir.type_utils.to_type',
    'src.ir.type_utils._find_types',
    'src.ir.type_utils.find_subtypes',
    'src.ir.type_utils.find_supertypes',
    'src.ir.type_utils.find_irrelevant_type',
]
SIDECARS = SIDECARS + [x for x in _identity.SIDECARS if x not in SIDECARS]
FUNCTIONS = FUNCTIONS + [f for f in _identity.FUNCTIONS if f not in FUNCTIONS]
TRUSTED = [
    '_construct_related_types (randomised, heuristic) is OUTSIDE the proof: its one contribution to a search result is the '
    'uninterpreted ghost Related(...) (assumed well-formed); it is decided by the bounded part only',
    'instantiate_type_constructor returns an instantiation InstOf(result, constructor) (C08); "an instantiation of a bare '
    'generic class that is below T is below T" is the meaning of Sub for bare generic classes (rules con-plain / con-args of '
    'C06) and is not re-proved here',
    'pool entries are well-formed types or class declarations whose get_type() is a well-formed type (precondition PoolValid)',
    'find_irrelevant_type is verified in slice mode (DESIGN 2.7): choose_type, get_irrelevant_parameterized_type and the '
    'dict comprehension building type_args_map are havocked (listed under abstracted statements); its obligations sit at '
    'every return statement (site_return; a return of an unlisted form is a failed obligation)',
    'sets of IR types: the modelled set is a superset of the run-time set (an equal element is not added twice, discard '
    'removes equal elements); only universal / negative membership statements are made about them, positive ones modulo ==',
    'to_type is modelled as a function symbol constrained by its postconditions inside the result comprehension',
]
ASSUMPTIONS = [
    'proved (all pools, queries, flags): every element of a subtype-search result is -- or, for a bare generic class when '
    'concrete types are requested, is an instantiation of -- a type for which the type system answered is_subtype(T) '
    '(hence Sub by C06), or the query itself exactly when asked for, or the one element built by _construct_related_types; '
    'no uninstantiated generic class when concrete types are requested; the irrelevant-type search returns None for the '
    'top type, runs both searches (include_self, concrete_only) on the query or on the bound of a type variable, and a pool '
    'member it returns is (modulo ==) in neither complete result list, is not the top type and not a bare generic class; a '
    're-instantiated generic class is returned only if is_subtype answers False both ways.  NOT proved (bounded part): '
    'that the two search results contain ALL relatives (completeness = exactness of C06), _construct_related_types, '
    'get_irrelevant_parameterized_type',
]
NOT_UNDER_CONTRACT = ['src.ir.type_utils._construct_related_types', 'src.ir.type_utils._find_candidate_type_args (C17 sites only)',
                      'src.ir.type_utils._replace_type_argument', 'src.ir.type_utils.get_irrelevant_parameterized_type',
                      'src.ir.type_utils.choose_type']

def custom_proof(tier):
    """the return-site clause of find_irrelevant_type speaks about the locals `supertypes` / `subtypes` as the results of the
    two searches: each is bound exactly once, by that call, and never changed (syntactic, from the real AST)"""
    from pyvc import statecheck, frontend
    fe = frontend.Frontend(os.environ.get('HEPH_REPO', '/repo'))
    q = 'src.ir.type_utils.find_irrelevant_type'
    out = (statecheck.bound_once_to_call(fe, q, 'supertypes', 'find_supertypes')
           + statecheck.bound_once_to_call(fe, q, 'subtypes', 'find_subtypes'))
    # the one element of a search result that is outside the proof comes from _construct_related_types: at least every return
    # statement of that function hands out the query itself or an instantiation made by the query's own generic class, and its
    # random draw never sees an empty candidate list (contracts/ranges.py, verified as a second group)
    from pyvc import driver
    out += driver.verify_group(['src.ir.type_utils._construct_related_types'], ['ranges'])
    return out


from props import C09_bounded as _b   # noqa: E402
bounded = _b.bounded
replay_search = _b.replay_search
replay = _b.replay
