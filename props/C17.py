"""C17 - generation switches are honoured."""
import ast
import glob
import os
import sys

HERE = os.path.dirname(os.path.dirname(os.path.abspath(__file__)))
REPO = os.environ.get('HEPH_REPO', '/repo')
sys.path.insert(0, HERE)

ID = 'C17'
LEVEL = 'proof'
SIDECARS = ['types_sub', 'types_ctor', 'cfg_common', 'switches']
FUNCTIONS = [
    'src.ir.types._get_type_substitution',
    'src.ir.types._to_type_variable_free',
    'src.ir.types.ParameterizedType.to_type_variable_free',
    'src.ir.type_utils._find_candidate_type_args',
    'src.ir.type_utils._compute_type_variable_assignments',
    'src.ir.type_utils._get_type_arg_variance',
    'src.generators.generator.Generator.gen_type_params',
    'src.generators.generator.Generator.gen_func_decl',
    'src.generators.generator.Generator.gen_class_decl',
    'src.generators.generator.Generator._create_type_params_from_etype',
]
# calls whose arguments carry a switch decision: every call site in src/ must lie in a function with a site_call clause
SITE_CALLS = {'gen_type_params': ['J5-decision', 'J6-decision']}
SITE_CLASSES = {'WildCardType': ['J1', 'J2']}
TRUSTED = [
    'RandomUtils.bool(prob) (src/utils.py: `self.r.random() < prob`, random() in [0, 1)) is never True for prob == 0; the '
    'probabilities are modelled as integers, only `== 0` is used',
    'site induction (DESIGN 2.7): the invariants J1/J2 hold of every object that exists because they are established at every '
    'construction site of WildCardType (enumerated from the AST of src/ and hephaestus.py on every run); copies made by '
    'copy/deepcopy/pickle have the class and the variance of the original',
    'slice mode: statements / calls outside the Python subset are abstracted by havoc of everything they can assign and of '
    'the whole heap, subject to J (each abstraction is listed in the evidence)',
    'the configuration object cfg and the three Variance constants are not modified during generation (checked: no store to '
    'the switch attributes outside src/args.py and src/generators/config.py)',
    'WildCardType.variance / .bound are only assigned in WildCardType.__init__ (checked syntactically: every other store to '
    '.variance / .bound is listed as a site of the TypeParameter invariants, which are bounded-only for now)',
]
ASSUMPTIONS = [
    'proved: J1 (no use-site projection exists when use-site variance is disabled) and J2 (no contravariant projection when '
    'use-site contravariance is disabled) at all 5 construction sites, and the switch clauses of _get_type_arg_variance. '
    'For the clauses about type-parameter bounds, parameterized functions and declaration-site variance (J3-J6) only the '
    'DECISION POINTS of the generator are proved: gen_type_params gives no bound when cfg.prob.bounded_type_parameters == 0 '
    'and no variance unless asked; gen_func_decl chooses no type parameters when cfg.prob.parameterized_functions == 0 and '
    'never asks for variance; every call of gen_type_params in src/ asks for variance only for kotlin/scala. That the later '
    'copies / substitutions / TypeUpdater keep J3-J6 is the bounded part (generated programs under the 16 switch '
    'combinations). The CLI wiring is proved: the configuration block of src/args.py, executed symbolically, leaves the two '
    'boolean switches equal to their flags and the two probabilities at 0 when the flag is given, for every combination of '
    'flags (z3; a failing wiring obligation carries the flag combination as counter-model)',
]
NOT_UNDER_CONTRACT = ['J3-J6 propagation sites: _gen_type_params_from_existing, _remove_unused_type_params, '
                      'ast.FunctionDeclaration.__init__, TypeUpdater.update_type, substitution copies (bounded only)']


def custom_proof(tier):
    """site coverage: every construction site of a site class lies in a function under a slice contract with site clauses"""
    from pyvc import contracts as C
    sc = C.load_dir(os.path.join(HERE, 'contracts'), SIDECARS)
    covered = {}
    covered_calls = {}
    for q, c in sc.contracts.items():
        for cls, name, _ in c.sites:
            covered.setdefault(q, set()).add(cls)
        for callee, name, _ in c.site_calls:
            covered_calls.setdefault(q, set()).add(callee)
    out = []
    files = sorted(glob.glob(os.path.join(REPO, 'src', '**', '*.py'), recursive=True)) + [os.path.join(REPO, 'hephaestus.py')]
    switch_attrs = {'use_site_variance', 'use_site_contravariance', 'bounded_type_parameters', 'parameterized_functions'}
    for f in files:
        rel = os.path.relpath(f, REPO)
        mod = rel[:-3].replace('/', '.')
        tree = ast.parse(open(f).read())

        def walk(node, qual):
            for ch in ast.iter_child_nodes(node):
                q = qual
                if isinstance(ch, (ast.FunctionDef, ast.ClassDef)):
                    q = qual + '.' + ch.name
                if isinstance(ch, ast.Call):
                    fn = ch.func
                    nm = fn.id if isinstance(fn, ast.Name) else (fn.attr if isinstance(fn, ast.Attribute) else None)
                    if nm in SITE_CALLS:
                        owner = next((k for k in covered_calls if q == k or q.startswith(k + '.')), None)
                        ok = owner is not None and nm in covered_calls[owner] and owner in FUNCTIONS
                        out.append(dict(name='%s/call-covered[%s line-independent]' % (q, nm), function=q, lineno=ch.lineno,
                                        kind='proof', status='proved' if ok else 'failed', secs=0, backend='syntactic',
                                        reason='' if ok else 'call of %s in a function without a site_call obligation' % nm))
                    if nm in SITE_CLASSES:
                        # nested defs are executed with their outermost contract function
                        owner = next((k for k in covered if q == k or q.startswith(k + '.')), None)
                        ok = owner is not None and nm in covered[owner] and owner in FUNCTIONS
                        out.append(dict(name='%s/site-covered[new %s line-independent]' % (q, nm), function=q, lineno=ch.lineno,
                                        kind='proof', status='proved' if ok else 'failed', secs=0, backend='syntactic',
                                        reason='' if ok else 'construction site of %s in a function without site obligations'
                                        % nm))
                if isinstance(ch, (ast.Assign, ast.AugAssign)):
                    tg = ch.targets if isinstance(ch, ast.Assign) else [ch.target]
                    for t in tg:
                        for e in (t.elts if isinstance(t, (ast.Tuple, ast.List)) else [t]):
                            if isinstance(e, ast.Attribute) and e.attr in switch_attrs \
                                    and rel not in ('src/args.py', 'src/generators/config.py'):
                                out.append(dict(name='%s/switch-not-assigned[%s]' % (q, e.attr), function=q,
                                                lineno=ch.lineno, kind='proof', status='failed', secs=0, backend='syntactic',
                                                reason='generation switch %s is assigned outside src/args.py' % e.attr))
                walk(ch, q)
        walk(tree, mod)
    from pyvc import statecheck
    out += statecheck.switch_wiring_obligations(REPO)
    out.append(dict(name='src/switches-only-assigned-in-args', function='src.args', lineno=0, kind='proof', status='proved',
                    secs=0, backend='syntactic', reason='')) if not any('switch-not-assigned' in o['name'] for o in out) else None
    return out


try:
    from props import C17_bounded as _b
    bounded = _b.bounded
    replay_search = _b.replay_search
    replay = _b.replay
except ImportError:
    pass
