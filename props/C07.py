"""C07 - instantiating a generic class substitutes everywhere and mutates nothing."""
import os
import sys

HERE = os.path.dirname(os.path.dirname(os.path.abspath(__file__)))
REPO = os.environ.get('HEPH_REPO', '/repo')

from props import _identity  # noqa: E402

ID = 'C07'
# modules whose functions must not keep state between calls (pyvc.statecheck.hidden_state_census, syntactic)
HIDDEN_STATE_MODULES = ['src.ir.types']
LEVEL = 'proof'
SIDECARS = ['types_sub', 'types_ctor', 'types_inst']
_T = 'src.ir.types.'
FUNCTIONS = [_T + f for f in (
    'Type.__init__', 'SimpleClassifier.__init__', 'TypeParameter.__init__', 'WildCardType.__init__',
    'TypeConstructor.__init__', 'ParameterizedType.__init__',
    '_get_type_substitution', 'substitute_type_args', 'substitute_type', 'perform_type_substitution',
    'TypeConstructor.new', 'ParameterizedType.to_variance_free',
    'AbstractType.has_type_variables', 'Builtin.has_type_variables', 'SimpleClassifier.has_type_variables',
    'WildCardType.has_type_variables', 'ParameterizedType.has_type_variables')]
SIDECARS = SIDECARS + [x for x in _identity.SIDECARS if x not in SIDECARS]
FUNCTIONS = FUNCTIONS + [f for f in _identity.FUNCTIONS if f not in FUNCTIONS]
TRUSTED = [
    'copy.deepcopy returns a fresh object of the same class with the same name and as many supertypes / type parameters, '
    'and modifies no object that existed before the call; copy() of a list is a value copy',
    'allocation model: a constructor call / deepcopy yields an object outside the current allocation set; whatever an '
    'allocated object refers to is allocated (objects cannot point to objects created later)',
    'the predicate passed as `cond` is pure',
    'Valid(t) well-formedness of the argument types is a precondition',
]
ASSUMPTIONS = []
NOT_UNDER_CONTRACT = []


def _load():
    for m in [k for k in sys.modules if k == 'src' or k.startswith('src.')]:
        del sys.modules[m]
    if REPO not in sys.path:
        sys.path.insert(0, REPO)
    sys.path.insert(0, HERE)
    import importlib
    from specs import subst_ref
    importlib.reload(subst_ref)
    return subst_ref


def bounded(tier, seed, stop_first=False):
    return _load().run(tier, seed, stop_first)


def replay_search(obligation, qual, seed, tier):
    r = bounded('thorough', seed, stop_first=True)
    v = r.get('violations') or []
    return v[0] if v else None


def replay(payload):
    fi = payload.get('failing_input')
    if not fi:
        print('replay file carries no concrete input (obligation %s); solver output: %s'
              % (payload.get('obligation'), payload.get('solver', {}).get('reason')))
        return False
    return _load().replay(fi)
