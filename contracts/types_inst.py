"""Contracts for instantiation / substitution (property C07): src/ir/types.py.  Parsed by pyvc, never executed.
Loaded together with types_sub.py (field layout, Valid, PyEq).

"Mutates nothing" = every attribute write and every in-place container mutation through an attribute targets an
object allocated during the call (option frame="fresh"), and every contract carries the frame postcondition
`forall o allocated before the call: all fields unchanged`, so callers recover what the callee left alone.
"""
bound(tm="Map[TypeParameter,Type]", k="Int")
alias("TypeMap", "Map[TypeParameter,Type]")


@ghost
def Frame(dummy: "Int") -> "Bool":
    pass


# ---------------------------------------------------------------- substitution
bound(a="Type")


@ghost
def AssignedPlain(a: "Type", tm: "Map[TypeParameter,Type]") -> "Bool":
    """a is not an instantiation and not a projection, and the map assigns it a type"""
    define(not isinstance(a, ParameterizedType) and not isinstance(a, WildCardType) and a in tm and tm[a] is not None)


@ghost
def Untouched(a: "Type", tm: "Map[TypeParameter,Type]") -> "Bool":
    """a is not an instantiation, not a projection, not a type variable, and the map does not assign it: nothing to replace"""
    define(not isinstance(a, ParameterizedType) and not isinstance(a, WildCardType) and not isinstance(a, TypeParameter)
           and not (a in tm and tm[a] is not None))


@contract("src.ir.types._get_type_substitution", frame="fresh")
def _(etype: "Type", type_map: "TypeMap", cond: "Any") -> "Type":
    callable(cond="src.ir.types.<cond>")
    requires("valid", Valid(etype))
    modifies(".*")
    ensures("mutates-nothing", forall(lambda o: implies(allocated(o), unchanged(o))))
    ensures("result-exists", allocated_now(result))
    # ---- "every occurrence is replaced", one level at a time (the clauses speak about the heap after the call; what a
    # nested call built is not changed afterwards by the frame clauses above)
    # a type variable the map assigns (and the caller's condition lets through) is replaced by its assignment
    ensures("assigned-variable-replaced", implies(
        not isinstance(etype, ParameterizedType) and not (isinstance(etype, WildCardType) and cast(etype, "WildCardType").bound is not None)
        and etype in type_map and type_map[etype] is not None and not cond(type_map[etype]),
        same(result, type_map[etype])))
    # anything else that is neither an instantiation, a bounded projection nor a bounded variable is returned as it is
    ensures("nothing-to-replace", implies(
        not isinstance(etype, ParameterizedType) and not (isinstance(etype, WildCardType) and cast(etype, "WildCardType").bound is not None)
        and not (etype in type_map and type_map[etype] is not None)
        and not (isinstance(etype, TypeParameter) and cast(etype, "TypeParameter").bound is not None),
        same(result, etype)))
    # a projection stays a projection of the same kind ...
    ensures("projection-kept", implies(
        isinstance(etype, WildCardType) and cast(etype, "WildCardType").bound is not None,
        isinstance(result, WildCardType) and same(cast(result, "WildCardType").variance, cast(etype, "WildCardType").variance)
        and cast(result, "WildCardType").bound is not None))
    # ... and an occurrence INSIDE its bound is replaced: `out T` with T assigned becomes `out <assignment>`
    ensures("occurrence-in-projection-bound-replaced", implies(
        isinstance(etype, WildCardType) and cast(etype, "WildCardType").bound is not None
        and not isinstance(cast(etype, "WildCardType").bound, ParameterizedType)
        and not isinstance(cast(etype, "WildCardType").bound, WildCardType)
        and cast(etype, "WildCardType").bound in type_map and type_map[cast(etype, "WildCardType").bound] is not None
        and not cond(type_map[cast(etype, "WildCardType").bound]),
        same(cast(result, "WildCardType").bound, type_map[cast(etype, "WildCardType").bound])))
    # an instantiation is re-built (a new object: its arguments are substituted) with as many arguments
    ensures("instantiation-rebuilt", implies(isinstance(etype, ParameterizedType), isinstance(result, ParameterizedType)
            and newobj(result)
            and len(cast(result, "ParameterizedType").type_args) == len(cast(etype, "ParameterizedType").type_args)))
    # ... also when it is the bound of a projection (`out A<T>`): the projection gets the re-built instantiation
    ensures("instantiation-in-projection-bound-rebuilt", implies(
        isinstance(etype, WildCardType) and cast(etype, "WildCardType").bound is not None
        and isinstance(cast(etype, "WildCardType").bound, ParameterizedType),
        isinstance(cast(result, "WildCardType").bound, ParameterizedType) and newobj(cast(result, "WildCardType").bound)
        and len(cast(cast(result, "WildCardType").bound, "ParameterizedType").type_args)
        == len(cast(cast(etype, "WildCardType").bound, "ParameterizedType").type_args)))
    # a bounded type variable that is not replaced is re-built with the same name and variance (its bound is substituted)
    ensures("bounded-variable-rebuilt", implies(
        isinstance(etype, TypeParameter) and cast(etype, "TypeParameter").bound is not None
        and not (etype in type_map and type_map[etype] is not None and not cond(type_map[etype])),
        isinstance(result, TypeParameter) and newobj(result)
        and same(cast(result, "TypeParameter").name, etype.name)
        and same(cast(result, "TypeParameter").variance, cast(etype, "TypeParameter").variance)))


@contract("src.ir.types.substitute_type_args", frame="fresh")
def _(etype: "Type", type_map: "TypeMap", cond: "Any") -> "ParameterizedType":
    callable(cond="src.ir.types.<cond>")
    requires("valid", Valid(etype))
    requires("parameterized", isinstance(etype, ParameterizedType))
    modifies(".*")
    ensures("mutates-nothing", forall(lambda o: implies(allocated(o), unchanged(o))))
    ensures("new", newobj(result))
    ensures("arity", len(result.type_args) == len(cast(etype, "ParameterizedType").type_args))
    # ---- "every occurrence is replaced", for the occurrences directly in argument position and inside the bound of a
    # projected argument (deeper occurrences: the same clauses of the nested calls, one level at a time)
    ensures("assigned-argument-replaced", forall(lambda k: implies(
        0 <= k and k < len(cast(etype, "ParameterizedType").type_args)
        and AssignedPlain(cast(etype, "ParameterizedType").type_args[k], type_map)
        and not cond(type_map[cast(etype, "ParameterizedType").type_args[k]]),
        same(result.type_args[k], type_map[cast(etype, "ParameterizedType").type_args[k]]))))
    ensures("other-argument-kept", forall(lambda k: implies(
        0 <= k and k < len(cast(etype, "ParameterizedType").type_args)
        and Untouched(cast(etype, "ParameterizedType").type_args[k], type_map),
        same(result.type_args[k], cast(etype, "ParameterizedType").type_args[k]))))
    ensures("projected-argument-replaced", forall(lambda k: implies(
        0 <= k and k < len(cast(etype, "ParameterizedType").type_args)
        and isinstance(cast(etype, "ParameterizedType").type_args[k], WildCardType)
        and cast(cast(etype, "ParameterizedType").type_args[k], "WildCardType").bound is not None
        and AssignedPlain(cast(cast(etype, "ParameterizedType").type_args[k], "WildCardType").bound, type_map)
        and not cond(type_map[cast(cast(etype, "ParameterizedType").type_args[k], "WildCardType").bound]),
        isinstance(result.type_args[k], WildCardType)
        and same(cast(result.type_args[k], "WildCardType").variance,
                 cast(cast(etype, "ParameterizedType").type_args[k], "WildCardType").variance)
        and same(cast(result.type_args[k], "WildCardType").bound,
                 type_map[cast(cast(etype, "ParameterizedType").type_args[k], "WildCardType").bound]))))
    ensures("nested-instantiation-rebuilt", forall(lambda k: implies(
        0 <= k and k < len(cast(etype, "ParameterizedType").type_args)
        and isinstance(cast(etype, "ParameterizedType").type_args[k], ParameterizedType),
        isinstance(result.type_args[k], ParameterizedType) and newobj(result.type_args[k])
        and len(cast(result.type_args[k], "ParameterizedType").type_args)
        == len(cast(cast(etype, "ParameterizedType").type_args[k], "ParameterizedType").type_args))))
    local(type_args="Seq[Type]")
    with loop("0"):
        invariant("mutates-nothing", forall(lambda o: implies(allocated(o), unchanged(o))))
        invariant("len", len(type_args) == _i0)
        invariant("exists", forall(lambda k: implies(0 <= k and k < _i0, allocated_now(type_args[k]))))
        invariant("nested-instantiation-rebuilt", forall(lambda k: implies(
            0 <= k and k < _i0 and isinstance(cast(etype, "ParameterizedType").type_args[k], ParameterizedType),
            isinstance(type_args[k], ParameterizedType) and newobj(type_args[k])
            and len(cast(type_args[k], "ParameterizedType").type_args)
            == len(cast(cast(etype, "ParameterizedType").type_args[k], "ParameterizedType").type_args))))
        invariant("assigned-argument-replaced", forall(lambda k: implies(
            0 <= k and k < _i0 and AssignedPlain(cast(etype, "ParameterizedType").type_args[k], type_map)
            and not cond(type_map[cast(etype, "ParameterizedType").type_args[k]]),
            same(type_args[k], type_map[cast(etype, "ParameterizedType").type_args[k]]))))
        invariant("other-argument-kept", forall(lambda k: implies(
            0 <= k and k < _i0 and Untouched(cast(etype, "ParameterizedType").type_args[k], type_map),
            same(type_args[k], cast(etype, "ParameterizedType").type_args[k]))))
        invariant("projected-argument-replaced", forall(lambda k: implies(
            0 <= k and k < _i0
            and isinstance(cast(etype, "ParameterizedType").type_args[k], WildCardType)
            and cast(cast(etype, "ParameterizedType").type_args[k], "WildCardType").bound is not None
            and AssignedPlain(cast(cast(etype, "ParameterizedType").type_args[k], "WildCardType").bound, type_map)
            and not cond(type_map[cast(cast(etype, "ParameterizedType").type_args[k], "WildCardType").bound]),
            isinstance(type_args[k], WildCardType)
            and same(cast(type_args[k], "WildCardType").variance,
                     cast(cast(etype, "ParameterizedType").type_args[k], "WildCardType").variance)
            and same(cast(type_args[k], "WildCardType").bound,
                     type_map[cast(cast(etype, "ParameterizedType").type_args[k], "WildCardType").bound]))))


@contract("src.ir.types.substitute_type", frame="fresh")
def _(t: "Type", type_map: "TypeMap") -> "Type":
    requires("valid", Valid(t))
    modifies(".*")
    ensures("mutates-nothing", forall(lambda o: implies(allocated(o), unchanged(o))))


@contract("src.ir.types.perform_type_substitution", frame="fresh")
def _(etype: "TypeConstructor", type_map: "TypeMap", cond: "Any") -> "TypeConstructor":
    callable(cond="src.ir.types.<cond>")
    requires("valid", Valid(etype))
    modifies(".*")
    ensures("mutates-nothing", forall(lambda o: implies(allocated(o), unchanged(o))))
    ensures("new", newobj(result) and same_class(result, etype))
    ensures("name", same(result.name, etype.name))
    ensures("arity", len(result.type_parameters) == len(etype.type_parameters))
    ensures("supertypes", len(result.supertypes) == len(etype.supertypes))
    local(supertypes="Seq[Type]", type_params="Seq[TypeParameter]")
    with loop("0"):
        invariant("mutates-nothing", forall(lambda o: implies(allocated(o), unchanged(o))))
        invariant("len", len(supertypes) == _i0)
    with loop("1"):
        invariant("mutates-nothing", forall(lambda o: implies(allocated(o), unchanged(o))))
        invariant("len", len(type_params) == _i1)
        invariant("sup-len", len(supertypes) == len(etype.supertypes))


@contract("src.ir.types.TypeConstructor.new", frame="fresh")
def _(self: "TypeConstructor", type_args: "Seq[Type]") -> "ParameterizedType":
    requires("valid", Valid(self))
    requires("arity", len(type_args) == len(self.type_parameters))
    modifies(".*")
    ensures("mutates-nothing", forall(lambda o: implies(allocated(o), unchanged(o))))
    ensures("new", newobj(result))
    ensures("args", seq_eq(result.type_args, type_args))
    ensures("name", same(result.name, self.name))
    ensures("supertypes-len", len(result.supertypes) == len(self.supertypes))
    ensures("constructor-supertypes", same(result.t_constructor.supertypes, old(self.supertypes)))


# ---------------------------------------------------------------- callers that compute arguments and instantiate
@external("<any>.get_bound_rec")
def _(self: "Any") -> "Opt[Type]":
    """the bound of a projection (a query: modifies nothing); the result exists already"""
    ensures("exists", implies(result is not None, allocated(result)))


@contract("src.ir.types.ParameterizedType.to_variance_free", frame="fresh")
def _(self: "ParameterizedType", type_var_map: "Opt[Map[TypeParameter,Type]]") -> "ParameterizedType":
    """builds its own argument list: the receiver (an earlier instantiation), its arguments and the class definition keep
    their meaning"""
    requires("valid", Valid(self))
    modifies(".*")
    ensures("mutates-nothing", forall(lambda o: implies(allocated(o), unchanged(o))))
    ensures("new", newobj(result))
    ensures("arity", len(result.type_args) == len(self.type_args))
    local(type_args="Seq[Type]")
    with loop("0"):
        invariant("mutates-nothing", forall(lambda o: implies(allocated(o), unchanged(o))))
        invariant("len", len(type_args) == _i0)
