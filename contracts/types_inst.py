"""Contracts for instantiation / substitution (property C07): src/ir/types.py.  Parsed by pyvc, never executed.
Loaded together with types_sub.py (field layout, Valid, PyEq).

"Mutates nothing" = every attribute write and every in-place container mutation through an attribute targets an
object allocated during the call (option frame="fresh"), and every contract carries the frame postcondition
`forall o allocated before the call: all fields unchanged`, so callers recover what the callee left alone.
"""
bound(o="Type", tm="Map[TypeParameter,Type]", k="Int")
alias("TypeMap", "Map[TypeParameter,Type]")


@ghost
def Frame(dummy: "Int") -> "Bool":
    pass


# ---------------------------------------------------------------- trusted library contracts
@external("copy.deepcopy", allocates=True)
def _(x: "Type") -> "Type":
    """deep copy: a fresh object of the same class with equal scalar attributes and copied containers"""
    modifies(".*")
    ensures("new", newobj(result) and same_class(result, x))
    ensures("name", same(result.name, x.name))
    ensures("supertypes-len", len(result.supertypes) == len(x.supertypes))
    ensures("params-len", implies(isinstance(x, TypeConstructor),
                                  len(cast(result, "TypeConstructor").type_parameters)
                                  == len(cast(x, "TypeConstructor").type_parameters)))
    ensures("frame", forall(lambda o: implies(allocated(o), unchanged(o))))


# ---------------------------------------------------------------- constructors
@contract("src.ir.types.Type.__init__", frame="self")
def _(self: "Type", name: "Str") -> "None":
    modifies(".name", ".supertypes")
    ensures("fields", same(self.name, name) and len(self.supertypes) == 0)
    ensures("frame", forall(lambda o: implies(not same(o, self), unchanged(o))))


@contract("src.ir.types.SimpleClassifier._check_supertypes", trusted=True)
def _(self: "SimpleClassifier") -> "None":
    """consistency assertion over the supertype closure; reads only (may raise AssertionError)"""
    pass


@contract("src.ir.types.SimpleClassifier.__init__", frame="self")
def _(self: "SimpleClassifier", name: "Str", supertypes: "Opt[Seq[Type]]", check: "Bool") -> "None":
    modifies(".name", ".supertypes")
    ensures("name", same(self.name, name))
    ensures("supertypes", implies(supertypes is not None, same(self.supertypes, supertypes)))
    ensures("supertypes-default", implies(supertypes is None, len(self.supertypes) == 0))
    ensures("frame", forall(lambda o: implies(not same(o, self), unchanged(o))))


@contract("src.ir.types.TypeParameter.__init__", frame="self")
def _(self: "TypeParameter", name: "Str", variance: "Opt[Variance]", bound: "Opt[Type]") -> "None":
    modifies(".name", ".supertypes", ".variance", ".bound")
    ensures("fields", same(self.name, name) and same(self.bound, bound) and len(self.supertypes) == 0)
    ensures("variance", implies(variance is not None, same(self.variance, variance)))
    ensures("frame", forall(lambda o: implies(not same(o, self), unchanged(o))))


@contract("src.ir.types.WildCardType.__init__", frame="self")
def _(self: "WildCardType", bound: "Opt[Type]", variance: "Variance") -> "None":
    modifies(".name", ".supertypes", ".variance", ".bound")
    ensures("fields", same(self.bound, bound) and same(self.variance, variance) and len(self.supertypes) == 0)
    ensures("frame", forall(lambda o: implies(not same(o, self), unchanged(o))))


@contract("src.ir.types.TypeConstructor.__init__", frame="self")
def _(self: "TypeConstructor", name: "Str", type_parameters: "Seq[TypeParameter]", supertypes: "Opt[Seq[Type]]") -> "None":
    requires("nonempty", len(type_parameters) != 0)
    modifies(".name", ".supertypes", ".type_parameters")
    ensures("fields", same(self.name, name) and seq_eq(self.type_parameters, type_parameters))
    ensures("supertypes", implies(supertypes is not None, same(self.supertypes, supertypes)))
    ensures("frame", forall(lambda o: implies(not same(o, self), unchanged(o))))


@contract("src.ir.types.ParameterizedType.__init__", frame="self")
def _(self: "ParameterizedType", t_constructor: "TypeConstructor", type_args: "Seq[Type]", can_infer_type_args: "Bool") -> "None":
    requires("arity", len(t_constructor.type_parameters) == len(type_args))
    modifies(".*")
    ensures("constructor-copied", newobj(self.t_constructor) and same_class(self.t_constructor, t_constructor)
            and same(self.t_constructor.name, t_constructor.name)
            and len(self.t_constructor.type_parameters) == len(t_constructor.type_parameters)
            and len(self.t_constructor.supertypes) == len(t_constructor.supertypes))
    ensures("args", seq_eq(self.type_args, type_args))
    ensures("name", same(self.name, t_constructor.name))
    ensures("supertypes", seq_eq(self.supertypes, self.t_constructor.supertypes))
    ensures("frame", forall(lambda o: implies(allocated(o) and not same(o, self), unchanged(o))))


# ---------------------------------------------------------------- classification helpers (defined by the class)
@family("src.ir.types.Type.is_wildcard", pure=True)
def _(self: "Type") -> "Bool":
    ensures("def", result == isinstance(self, WildCardType))


@family("src.ir.types.Type.is_type_var", pure=True)
def _(self: "Type") -> "Bool":
    ensures("def", result == isinstance(self, TypeParameter))


@family("src.ir.types.Type.is_type_constructor", pure=True)
def _(self: "Type") -> "Bool":
    ensures("def", result == isinstance(self, TypeConstructor))


@external("src.ir.types.<cond>")
def _(t: "Type") -> "Bool":
    """the predicate passed as `cond` (a lambda at the call sites): pure, arbitrary"""
    pass


# ---------------------------------------------------------------- substitution
@contract("src.ir.types._get_type_substitution", frame="fresh")
def _(etype: "Type", type_map: "TypeMap", cond: "Any") -> "Type":
    callable(cond="src.ir.types.<cond>")
    requires("valid", Valid(etype))
    modifies(".*")
    ensures("mutates-nothing", forall(lambda o: implies(allocated(o), unchanged(o))))
    ensures("result-exists", allocated_now(result))


@contract("src.ir.types.substitute_type_args", frame="fresh")
def _(etype: "Type", type_map: "TypeMap", cond: "Any") -> "ParameterizedType":
    callable(cond="src.ir.types.<cond>")
    requires("valid", Valid(etype))
    requires("parameterized", isinstance(etype, ParameterizedType))
    modifies(".*")
    ensures("mutates-nothing", forall(lambda o: implies(allocated(o), unchanged(o))))
    ensures("new", newobj(result))
    ensures("arity", len(result.type_args) == len(cast(etype, "ParameterizedType").type_args))
    local(type_args="Seq[Type]")
    with loop("0"):
        invariant("mutates-nothing", forall(lambda o: implies(allocated(o), unchanged(o))))
        invariant("len", len(type_args) == _i0)
        invariant("exists", forall(lambda k: implies(0 <= k and k < _i0, allocated_now(type_args[k]))))


@contract("src.ir.types.substitute_type", frame="fresh")
def _(t: "Type", type_map: "TypeMap") -> "Type":
    requires("valid", Valid(t))
    modifies(".*")
    ensures("mutates-nothing", forall(lambda o: implies(allocated(o), unchanged(o))))


@contract("src.ir.types.perform_type_substitution", frame="fresh")
def _(etype: "TypeConstructor", type_map: "TypeMap", cond: "Any") -> "TypeConstructor":
    callable(cond="src.ir.types.<cond>")
    requires("valid", Valid(etype))
    modifies(".*")
    ensures("mutates-nothing", forall(lambda o: implies(allocated(o), unchanged(o))))
    ensures("new", newobj(result) and same_class(result, etype))
    ensures("name", same(result.name, etype.name))
    ensures("arity", len(result.type_parameters) == len(etype.type_parameters))
    ensures("supertypes", len(result.supertypes) == len(etype.supertypes))
    local(supertypes="Seq[Type]", type_params="Seq[TypeParameter]")
    with loop("0"):
        invariant("mutates-nothing", forall(lambda o: implies(allocated(o), unchanged(o))))
        invariant("len", len(supertypes) == _i0)
    with loop("1"):
        invariant("mutates-nothing", forall(lambda o: implies(allocated(o), unchanged(o))))
        invariant("len", len(type_params) == _i1)
        invariant("sup-len", len(supertypes) == len(etype.supertypes))


@contract("src.ir.types.TypeConstructor.new", frame="fresh")
def _(self: "TypeConstructor", type_args: "Seq[Type]") -> "ParameterizedType":
    requires("valid", Valid(self))
    requires("arity", len(type_args) == len(self.type_parameters))
    modifies(".*")
    ensures("mutates-nothing", forall(lambda o: implies(allocated(o), unchanged(o))))
    ensures("new", newobj(result))
    ensures("args", seq_eq(result.type_args, type_args))
    ensures("name", same(result.name, self.name))
    ensures("supertypes-len", len(result.supertypes) == len(self.supertypes))
    ensures("constructor-supertypes", same(result.t_constructor.supertypes, old(self.supertypes)))
