"""Contracts for instantiation / substitution (property C07): src/ir/types.py.  Parsed by pyvc, never executed.
Loaded together with types_sub.py (field layout, Valid, PyEq).

"Mutates nothing" = every attribute write and every in-place container mutation through an attribute targets an
object allocated during the call (option frame="fresh"), and every contract carries the frame postcondition
`forall o allocated before the call: all fields unchanged`, so callers recover what the callee left alone.
"""
bound(tm="Map[TypeParameter,Type]", k="Int")
alias("TypeMap", "Map[TypeParameter,Type]")


@ghost
def Frame(dummy: "Int") -> "Bool":
    pass


# ---------------------------------------------------------------- substitution
@contract("src.ir.types._get_type_substitution", frame="fresh")
def _(etype: "Type", type_map: "TypeMap", cond: "Any") -> "Type":
    callable(cond="src.ir.types.<cond>")
    requires("valid", Valid(etype))
    modifies(".*")
    ensures("mutates-nothing", forall(lambda o: implies(allocated(o), unchanged(o))))
    ensures("result-exists", allocated_now(result))


@contract("src.ir.types.substitute_type_args", frame="fresh")
def _(etype: "Type", type_map: "TypeMap", cond: "Any") -> "ParameterizedType":
    callable(cond="src.ir.types.<cond>")
    requires("valid", Valid(etype))
    requires("parameterized", isinstance(etype, ParameterizedType))
    modifies(".*")
    ensures("mutates-nothing", forall(lambda o: implies(allocated(o), unchanged(o))))
    ensures("new", newobj(result))
    ensures("arity", len(result.type_args) == len(cast(etype, "ParameterizedType").type_args))
    local(type_args="Seq[Type]")
    with loop("0"):
        invariant("mutates-nothing", forall(lambda o: implies(allocated(o), unchanged(o))))
        invariant("len", len(type_args) == _i0)
        invariant("exists", forall(lambda k: implies(0 <= k and k < _i0, allocated_now(type_args[k]))))


@contract("src.ir.types.substitute_type", frame="fresh")
def _(t: "Type", type_map: "TypeMap") -> "Type":
    requires("valid", Valid(t))
    modifies(".*")
    ensures("mutates-nothing", forall(lambda o: implies(allocated(o), unchanged(o))))


@contract("src.ir.types.perform_type_substitution", frame="fresh")
def _(etype: "TypeConstructor", type_map: "TypeMap", cond: "Any") -> "TypeConstructor":
    callable(cond="src.ir.types.<cond>")
    requires("valid", Valid(etype))
    modifies(".*")
    ensures("mutates-nothing", forall(lambda o: implies(allocated(o), unchanged(o))))
    ensures("new", newobj(result) and same_class(result, etype))
    ensures("name", same(result.name, etype.name))
    ensures("arity", len(result.type_parameters) == len(etype.type_parameters))
    ensures("supertypes", len(result.supertypes) == len(etype.supertypes))
    local(supertypes="Seq[Type]", type_params="Seq[TypeParameter]")
    with loop("0"):
        invariant("mutates-nothing", forall(lambda o: implies(allocated(o), unchanged(o))))
        invariant("len", len(supertypes) == _i0)
    with loop("1"):
        invariant("mutates-nothing", forall(lambda o: implies(allocated(o), unchanged(o))))
        invariant("len", len(type_params) == _i1)
        invariant("sup-len", len(supertypes) == len(etype.supertypes))


@contract("src.ir.types.TypeConstructor.new", frame="fresh")
def _(self: "TypeConstructor", type_args: "Seq[Type]") -> "ParameterizedType":
    requires("valid", Valid(self))
    requires("arity", len(type_args) == len(self.type_parameters))
    modifies(".*")
    ensures("mutates-nothing", forall(lambda o: implies(allocated(o), unchanged(o))))
    ensures("new", newobj(result))
    ensures("args", seq_eq(result.type_args, type_args))
    ensures("name", same(result.name, self.name))
    ensures("supertypes-len", len(result.supertypes) == len(self.supertypes))
    ensures("constructor-supertypes", same(result.t_constructor.supertypes, old(self.supertypes)))


# ---------------------------------------------------------------- callers that compute arguments and instantiate
@external("<any>.get_bound_rec")
def _(self: "Any") -> "Opt[Type]":
    """the bound of a projection (a query: modifies nothing); the result exists already"""
    ensures("exists", implies(result is not None, allocated(result)))


@contract("src.ir.types.ParameterizedType.to_variance_free", frame="fresh")
def _(self: "ParameterizedType", type_var_map: "Opt[Map[TypeParameter,Type]]") -> "ParameterizedType":
    """builds its own argument list: the receiver (an earlier instantiation), its arguments and the class definition keep
    their meaning"""
    requires("valid", Valid(self))
    modifies(".*")
    ensures("mutates-nothing", forall(lambda o: implies(allocated(o), unchanged(o))))
    ensures("new", newobj(result))
    ensures("arity", len(result.type_args) == len(self.type_args))
    local(type_args="Seq[Type]")
    with loop("0"):
        invariant("mutates-nothing", forall(lambda o: implies(allocated(o), unchanged(o))))
        invariant("len", len(type_args) == _i0)
