"""Contracts for src/graph_utils.py (property C19).  Parsed by pyvc, never executed."""
sort("Node")
alias("Graph", "Map[Node,Seq[Node]]")
bound(n="Node", m="Node", w="Node", a="Node", b="Node", g="Graph", j="Int", k="Int")


@ghost(least_fixpoint=True)
def Reach(g: "Graph", a: "Node", b: "Node") -> "Bool":
    """reflexive-transitive closure of the edge relation restricted to vertices that are keys"""
    rule("base", forall(lambda g, n: implies(n in g, Reach(g, n, n))))
    rule("step", forall(lambda g, n, m, w: implies(Reach(g, n, m) and w in g[m] and w in g, Reach(g, n, w))))


@contract("src.graph_utils.reachable", pure=True)
def _(graph: "Graph", start_vertex: "Node", dest_vertex: "Node") -> "Bool":
    ensures("iff", result == (start_vertex in graph and Reach(graph, start_vertex, dest_vertex)))
    local(queue="Seq[Node]", visited="Map[Node,Bool]")
    with loop("0"):
        invariant("dom", forall(lambda n: (n in visited) == (n in graph)))
        invariant("queue-visited", forall(lambda n: implies(n in queue, n in graph and visited[n])))
        invariant("visited-reach", forall(lambda n: implies(n in graph and visited[n], Reach(graph, start_vertex, n))))
        invariant("closed", forall(lambda n, m: implies(
            n in graph and visited[n] and n not in queue and m in graph[n] and m in graph, visited[m])))
        invariant("start", start_vertex in graph and visited[start_vertex])
        invariant("not-dest", forall(lambda n: implies(n in graph and visited[n] and n not in queue, n != dest_vertex)))
        exit_hint(induct("Reach", lambda g, a, b: implies(same(g, graph) and a == start_vertex, b in graph and visited[b])))
    with loop("0.0"):
        invariant("dom", forall(lambda n: (n in visited) == (n in graph)))
        invariant("queue-visited", forall(lambda n: implies(n in queue, n in graph and visited[n])))
        invariant("visited-reach", forall(lambda n: implies(n in graph and visited[n], Reach(graph, start_vertex, n))))
        invariant("closed", forall(lambda n, m: implies(
            n in graph and visited[n] and n not in queue and n != next_v and m in graph[n] and m in graph, visited[m])))
        invariant("start", start_vertex in graph and visited[start_vertex])
        invariant("next", next_v in graph and visited[next_v] and next_v != dest_vertex)
        invariant("not-dest", forall(lambda n: implies(n in graph and visited[n] and n not in queue, n != dest_vertex)))
        invariant("prefix", forall(lambda j: implies(0 <= j and j < _i0_0 and graph[next_v][j] in graph,
                                                     visited[graph[next_v][j]])))
