"""Contracts for src/graph_utils.py (property C19).  Parsed by pyvc, never executed."""
sort("Node")
alias("Graph", "Map[Node,Seq[Node]]")
bound(n="Node", m="Node", w="Node", a="Node", b="Node", g="Graph", j="Int", k="Int")


@ghost(least_fixpoint=True)
def Reach(g: "Graph", a: "Node", b: "Node") -> "Bool":
    """reflexive-transitive closure of the edge relation restricted to vertices that are keys"""
    rule("base", forall(lambda g, n: implies(n in g, Reach(g, n, n))))
    rule("step", forall(lambda g, n, m, w: implies(Reach(g, n, m) and w in g[m] and w in g, Reach(g, n, w))))


@contract("src.graph_utils.reachable", pure=True)
def _(graph: "Graph", start_vertex: "Node", dest_vertex: "Node") -> "Bool":
    ensures("iff", result == (start_vertex in graph and Reach(graph, start_vertex, dest_vertex)))
    local(queue="Seq[Node]", visited="Map[Node,Bool]")
    with loop("0"):
        invariant("dom", forall(lambda n: (n in visited) == (n in graph)))
        invariant("queue-visited", forall(lambda n: implies(n in queue, n in graph and visited[n])))
        invariant("visited-reach", forall(lambda n: implies(n in graph and visited[n], Reach(graph, start_vertex, n))))
        invariant("closed", forall(lambda n, m: implies(
            n in graph and visited[n] and n not in queue and m in graph[n] and m in graph, visited[m])))
        invariant("start", start_vertex in graph and visited[start_vertex])
        invariant("not-dest", forall(lambda n: implies(n in graph and visited[n] and n not in queue, n != dest_vertex)))
        exit_hint(induct("Reach", lambda g, a, b: implies(same(g, graph) and a == start_vertex, b in graph and visited[b])))
    with loop("0.0"):
        invariant("dom", forall(lambda n: (n in visited) == (n in graph)))
        invariant("queue-visited", forall(lambda n: implies(n in queue, n in graph and visited[n])))
        invariant("visited-reach", forall(lambda n: implies(n in graph and visited[n], Reach(graph, start_vertex, n))))
        invariant("closed", forall(lambda n, m: implies(
            n in graph and visited[n] and n not in queue and n != next_v and m in graph[n] and m in graph, visited[m])))
        invariant("start", start_vertex in graph and visited[start_vertex])
        invariant("next", next_v in graph and visited[next_v] and next_v != dest_vertex)
        invariant("not-dest", forall(lambda n: implies(n in graph and visited[n] and n not in queue, n != dest_vertex)))
        invariant("prefix", forall(lambda j: implies(0 <= j and j < _i0_0 and graph[next_v][j] in graph,
                                                     visited[graph[next_v][j]])))


@contract("src.graph_utils.bi_reachable", pure=True)
def _(graph: "Graph", start_vertex: "Node", dest_vertex: "Node") -> "Bool":
    ensures("iff", result == ((start_vertex in graph and Reach(graph, start_vertex, dest_vertex)) or
                              (dest_vertex in graph and Reach(graph, dest_vertex, start_vertex))))


@ghost(least_fixpoint=True)
def WReach(g: "Graph", a: "Node", b: "Node") -> "Bool":
    """closure of the symmetric edge relation (weak connectivity) over key vertices"""
    rule("base", forall(lambda g, n: implies(n in g, WReach(g, n, n))))
    rule("fwd", forall(lambda g, n, m, w: implies(WReach(g, n, m) and w in g[m] and w in g, WReach(g, n, w))))
    rule("back", forall(lambda g, n, m, w: implies(WReach(g, n, m) and w in g and m in g[w], WReach(g, n, w))))


@contract("src.graph_utils.connected", pure=True)
def _(graph: "Graph", start_vertex: "Node", dest_vertex: "Node") -> "Bool":
    ensures("iff", result == (start_vertex in graph and WReach(graph, start_vertex, dest_vertex)))
    local(queue="Seq[Node]", visited="Map[Node,Bool]")
    with loop("0"):
        invariant("dom", forall(lambda n: (n in visited) == (n in graph)))
        invariant("queue-visited", forall(lambda n: implies(n in queue, n in graph and visited[n])))
        invariant("visited-reach", forall(lambda n: implies(n in graph and visited[n], WReach(graph, start_vertex, n))))
        invariant("closed-fwd", forall(lambda n, m: implies(
            n in graph and visited[n] and n not in queue and m in graph[n] and m in graph, visited[m])))
        invariant("closed-back", forall(lambda n, m: implies(
            n in graph and visited[n] and n not in queue and m in graph and n in graph[m], visited[m])))
        invariant("start", start_vertex in graph and visited[start_vertex])
        invariant("not-dest", forall(lambda n: implies(n in graph and visited[n] and n not in queue, n != dest_vertex)))
        exit_hint(induct("WReach", lambda g, a, b: implies(same(g, graph) and a == start_vertex,
                                                           b in graph and visited[b])))
    with loop("0.0"):
        inherit("0", "closed-fwd", "closed-back")
        invariant("closed-fwd", forall(lambda n, m: implies(
            n in graph and visited[n] and n not in queue and n != next_v and m in graph[n] and m in graph, visited[m])))
        invariant("closed-back", forall(lambda n, m: implies(
            n in graph and visited[n] and n not in queue and n != next_v and m in graph and n in graph[m], visited[m])))
        invariant("next", next_v in graph and visited[next_v] and next_v != dest_vertex)
        invariant("prefix-fwd", forall(lambda j, m: implies(
            0 <= j and j < _i0_0 and _s0_0[j] == next_v and m in graph[next_v] and m in graph, visited[m])))
        invariant("prefix-back", forall(lambda j: implies(
            0 <= j and j < _i0_0 and next_v in graph[_s0_0[j]], visited[_s0_0[j]])))
    with loop("0.0.0"):
        inherit("0.0", "prefix-fwd")
        invariant("prefix-fwd", forall(lambda j, m: implies(
            0 <= j and j < _i0_0 and _s0_0[j] == next_v and m in graph[next_v] and m in graph, visited[m])))
        invariant("inner", forall(lambda k: implies(0 <= k and k < _i0_0_0 and adjs[k] in graph, visited[adjs[k]])))


global_var("src.analysis.use_analysis.NONE_NODE", "Node")


@contract("src.graph_utils.find_all_bi_reachable", pure=True)
def _(graph: "Graph", vertex: "Node") -> "Set[Node]":
    ensures("exact", forall(lambda n: (n in result) == (n in graph and (
        (vertex in graph and Reach(graph, vertex, n)) or Reach(graph, n, vertex))),
        triggers=[n in result, n in graph]))


@contract("src.graph_utils.find_all_connected", pure=True)
def _(graph: "Graph", vertex: "Node") -> "Set[Node]":
    ensures("exact", forall(lambda n: (n in result) == (n in graph and vertex in graph and WReach(graph, vertex, n)),
                            triggers=[n in result, n in graph]))


@contract("src.graph_utils.none_reachable")
def _(graph: "Graph", vertex: "Node", none_node: "Node") -> "Bool":
    ensures("iff", result == exists(lambda n: n in graph and
                                    ((vertex in graph and Reach(graph, vertex, n)) or Reach(graph, n, vertex)) and
                                    (Reach(graph, n, none_node) or (none_node in graph and Reach(graph, none_node, n)))))


@contract("src.graph_utils.none_connected")
def _(graph: "Graph", vertex: "Node", none_node: "Node") -> "Bool":
    ensures("iff", result == exists(lambda n: n in graph and vertex in graph and WReach(graph, vertex, n)
                                    and WReach(graph, n, none_node)))


# ---------------------------------------------------------------- dfs (type-inference feasibility check)
declare_class("Edge")
fields("Edge", target="Node")
alias("EGraph", "Map[Node,Seq[Edge]]")
bound(eg="EGraph")


@ghost(least_fixpoint=True)
def EReach(eg: "EGraph", a: "Node", b: "Node") -> "Bool":
    """closure of the edge relation n -> e.target, e in eg[n]; targets need not be keys"""
    rule("base", forall(lambda eg, n: EReach(eg, n, n)))
    rule("step", forall(lambda eg, n, m, j: implies(
        EReach(eg, n, m) and m in eg and 0 <= j and j < len(eg[m]), EReach(eg, n, eg[m][j].target))))


@contract("src.graph_utils.dfs")
def _(graph: "EGraph", source: "Node") -> "Set[Node]":
    ensures("exact", forall(lambda n: (n in result) == (EReach(graph, source, n) and n != source)))
    local(visited="Map[Node,Bool]")
    return_hint(induct("EReach", lambda eg, a, b: implies(same(eg, graph) and a == source, visited.get(b, False))))


@contract("src.graph_utils.dfs._dfs")
def _(n: "Node", graph: "EGraph", visited: "Map[Node,Bool]") -> "None":
    modifies("visited")
    ensures("mono", forall(lambda m: implies(old(visited).get(m, False), visited.get(m, False))))
    ensures("self", visited.get(n, False))
    ensures("sound", forall(lambda m: implies(visited.get(m, False) and not old(visited).get(m, False),
                                              EReach(graph, n, m))))
    ensures("closed", forall(lambda m, j: implies(
        visited.get(m, False) and not old(visited).get(m, False) and m in graph and 0 <= j and j < len(graph[m]),
        visited.get(graph[m][j].target, False))))
    with loop("0"):
        invariant("mono", forall(lambda m: implies(old(visited).get(m, False), visited.get(m, False))))
        invariant("self", visited.get(n, False))
        invariant("sound", forall(lambda m: implies(visited.get(m, False) and not old(visited).get(m, False),
                                                    EReach(graph, n, m))))
        invariant("closed", forall(lambda m, j: implies(
            visited.get(m, False) and not old(visited).get(m, False) and m != n and m in graph
            and 0 <= j and j < len(graph[m]), visited.get(graph[m][j].target, False))))
        invariant("prefix", forall(lambda j: implies(0 <= j and j < _i0, visited.get(_s0[j].target, False))))
        # transitivity instance needed after the recursive call: EReach(n, e.target) /\ EReach(e.target, b) ==> EReach(n, b)
        body_hint(induct("EReach", lambda eg, a, b: implies(same(eg, graph) and a == e.target, EReach(graph, n, b))))


# ---------------------------------------------------------------- find_sources
@ghost(least_fixpoint=True)
def RReach(g: "Graph", a: "Node", b: "Node") -> "Bool":
    """the same reflexive-transitive closure as Reach, generated by extension on the left
    (lean/Reach.lean: ReflTransGen.head induction)"""
    rule("base", forall(lambda g, n: implies(n in g, RReach(g, n, n))))
    rule("step", forall(lambda g, a, m, b: implies(RReach(g, m, b) and a in g and m in g[a] and m in g,
                                                   RReach(g, a, b))))


@contract("src.graph_utils.find_sources")
def _(graph: "Graph", vertex: "Node") -> "Seq[Node]":
    requires("vertex-is-key", vertex in graph)
    ensures("nodup", nodup(result))
    ensures("exact", forall(lambda a: (a in result) == (
        a in graph and RReach(graph, a, vertex) and not exists(lambda n: n in graph and a in graph[n]))))
    local(sources="Seq[Node]", visited="Map[Node,Bool]", stack="Seq[Node]", s_sources="Seq[Node]")
    with loop("0"):
        invariant("dom", forall(lambda n: (n in visited) == (n in graph)))
        invariant("stack", forall(lambda n: implies(n in stack, n in graph and RReach(graph, n, vertex))))
        invariant("visited-sound", forall(lambda n: implies(n in graph and visited[n], RReach(graph, n, vertex))))
        invariant("closed", forall(lambda n, m: implies(
            n in graph and visited[n] and m in graph and n in graph[m], visited[m] or m in stack)))
        invariant("start", visited[vertex] or vertex in stack)
        invariant("nodup", nodup(sources))
        invariant("sources", forall(lambda a: (a in sources) == (
            a in graph and visited[a] and not exists(lambda n: n in graph and a in graph[n]))))
        exit_hint(induct("RReach", lambda g, a, b: implies(same(g, graph) and b == vertex, a in graph and visited[a])))


# ---------------------------------------------------------------- paths
alias("Path", "Seq[Node]")
bound(x="Path", y="Path", p="Path", q="Path")


@ghost
def PathExt(g: "Graph", pre: "Path", q: "Path") -> "Bool":
    """q is a simple path of g that extends the walk pre: pre is a prefix of q, no vertex occurs twice in q, and every
    vertex after the prefix is a successor (in g) of the vertex before it"""
    define(len(q) >= len(pre) and seq_eq(take(q, len(pre)), pre) and nodup(q)
           and forall(lambda j: implies(len(pre) <= j and j < len(q), q[j - 1] in g and q[j] in g[q[j - 1]]),
                      triggers=[q[j]])
           # (the same clause indexed by the earlier vertex of each step: a second trigger for the solver)
           and forall(lambda j: implies(len(pre) - 1 <= j and 0 <= j and j + 1 < len(q), q[j] in g and q[j + 1] in g[q[j]]),
                      triggers=[q[j]])
           # (a consequence of the clauses above, stated so that the first step beyond the prefix is at hand)
           and implies(len(q) > len(pre) and len(pre) >= 1,
                       pre[len(pre) - 1] in g and q[len(pre)] in g[pre[len(pre) - 1]]))


@ghost
def Prefix(path: "Opt[Path]", start: "Node") -> "Path":
    """(path or []) + [start]"""
    define(snoc(ite(path is None, empty_seq("Path"), path), start))


@contract("src.graph_utils.find_all_paths", pure=True)
def _(graph: "Graph", start: "Node", path: "Opt[Path]") -> "Seq[Path]":
    """exactly the simple paths that extend (path or []) + [start]"""
    requires("prefix-simple", implies(path is not None, nodup(path) and start not in path))
    ensures("nonempty", len(result) >= 1)
    ensures("sound", forall(lambda q: implies(q in result, PathExt(graph, Prefix(old(path), start), q)),
                            triggers=[q in result]))
    ensures("complete", forall(lambda q: implies(
        PathExt(graph, Prefix(old(path), start), q), q in result),
        triggers=[PathExt(graph, Prefix(old(path), start), q), nodup(q)]))
    local(paths="Seq[Path]", newpaths="Seq[Path]")
    with loop("0"):
        invariant("has-prefix", path in paths)
        invariant("sound", forall(lambda q: implies(q in paths, PathExt(graph, path, q)), triggers=[q in paths]))
        invariant("complete", forall(lambda q: implies(
            PathExt(graph, path, q) and (len(q) == len(path) or exists(lambda k: 0 <= k and k < _i0 and _s0[k] == q[len(path)])),
            q in paths), triggers=[PathExt(graph, path, q)]))
        # a simple path that continues with the successor `node` extends path + [node] (used with the callee's
        # completeness clause)
        body_hint(lemma("extend", forall(lambda q: implies(
            PathExt(graph, path, q) and len(q) > len(path) and q[len(path)] == node,
            PathExt(graph, Prefix(path, node), q)), triggers=[PathExt(graph, path, q)])))
    with loop("0.0"):
        invariant("has-prefix", path in paths)
        invariant("sound", forall(lambda q: implies(q in paths, PathExt(graph, path, q)), triggers=[q in paths]))
        invariant("complete", forall(lambda q: implies(
            PathExt(graph, path, q) and (len(q) == len(path) or exists(lambda k: 0 <= k and k < _i0 and _s0[k] == q[len(path)])),
            q in paths), triggers=[PathExt(graph, path, q)]))
        invariant("inner", forall(lambda k: implies(0 <= k and k < _i0_0, newpaths[k] in paths)))
        # a path found from the successor `node` with prefix path + [node] also extends `path`
        body_hint(lemma("ext-len", len(newpath) >= len(path) + 1))
        body_hint(lemma("ext-prefix", seq_eq(take(newpath, len(path)), path)))
        body_hint(lemma("ext-nodup", nodup(newpath)))
        body_hint(lemma("ext-edges", forall(lambda j: implies(
            len(path) <= j and j < len(newpath), newpath[j - 1] in graph and newpath[j] in graph[newpath[j - 1]]),
            triggers=[newpath[j]])))
        body_hint(lemma("ext-first", path[len(path) - 1] in graph and newpath[len(path)] in graph[path[len(path) - 1]]))
        body_hint(lemma("ext", PathExt(graph, path, newpath)))


@contract("src.graph_utils.find_longest_paths.exist", pure=True)
def _(x: "Path", y: "Path") -> "Bool":
    ensures("proper-prefix", result == (len(x) < len(y) and seq_eq(take(y, len(x)), x)))


@contract("src.graph_utils.find_longest_paths")
def _(graph: "Graph", vertex: "Node") -> "Seq[Path]":
    ensures("maximal", forall(lambda x: (x in result) == (
        x in find_all_paths(graph, vertex, None) and
        not exists(lambda p: p in find_all_paths(graph, vertex, None) and len(x) < len(p)
                   and seq_eq(take(p, len(x)), x)))))


# ---------------------------------------------------------------- all-reachable set
@ghost
def ProperPrefix(x: "Path", p: "Path") -> "Bool":
    define(len(x) < len(p) and seq_eq(take(p, len(x)), x))


bound(ps="Seq[Path]", mx="Path")


@ghost
def MaxPrefixLemma(ps: "Seq[Path]") -> "Bool":
    """lean/MaxPrefix.lean (theorem exists_maximal_extension, checked by `lean` in the thorough tier): every member of a
    finite list of sequences is, or is a proper prefix of, a member that is a proper prefix of no member.  (Induction on
    the length deficit; the solver does no induction, so the statement enters as a lemma.)"""
    axiom("holds-of-every-list", forall(lambda ps: MaxPrefixLemma(ps), triggers=[MaxPrefixLemma(ps)]))
    axiom("max-extension", forall(lambda ps, x: implies(
        MaxPrefixLemma(ps) and x in ps,
        exists(lambda mx: mx in ps and (seq_eq(mx, x) or ProperPrefix(x, mx))
               and not exists(lambda p: p in ps and ProperPrefix(mx, p)))), triggers=[(MaxPrefixLemma(ps), x in ps)]))


@ghost(least_fixpoint=True)
def TReach(g: "Graph", a: "Node", b: "Node") -> "Bool":
    """the textbook all-reachable relation: reflexive-transitive closure of the edge relation m -> w (m a key, w in g[m]);
    targets need not be keys, and every vertex reaches itself"""
    rule("base", forall(lambda g, n: TReach(g, n, n)))
    rule("step", forall(lambda g, n, m, w: implies(TReach(g, n, m) and m in g and w in g[m], TReach(g, n, w))))


@ghost
def ReachIsOnSimplePath(g: "Graph", a: "Node", n: "Node") -> "Bool":
    """lean/SimplePath.lean (theorem reach_iff_on_simple_path, checked by `lean` in the thorough tier): a vertex is reachable
    iff it lies on a simple path from the start (loop erasure; an induction the solver cannot do).  The Lean statement is about
    an arbitrary relation E and lists a :: l; here E m w is `m in g and w in g[m]` and the list is the sequence q of PathExt
    (prefix [a], no vertex twice, consecutive vertices joined by an edge): correspondence by hand.
    The predicate is true of all arguments; it only serves as the trigger of the lemma (instantiating the lemma for every
    derived TReach term would build a new path for every reachable vertex, and so on: a matching loop)."""
    axiom("holds-of-all-arguments", forall(lambda g, a, n: ReachIsOnSimplePath(g, a, n), triggers=[ReachIsOnSimplePath(g, a, n)]))
    axiom("reach-iff-on-a-simple-path", forall(lambda g, a, n: implies(
        ReachIsOnSimplePath(g, a, n),
        TReach(g, a, n) == exists(lambda q: typed(q, "Path") and PathExt(g, Prefix(None, a), q) and n in q)),
        triggers=[ReachIsOnSimplePath(g, a, n)]))


@contract("src.graph_utils.find_all_reachable")
def _(graph: "Graph", vertex: "Node") -> "Set[Node]":
    """exactly the vertices that lie on a simple path starting at `vertex` = exactly the vertices reachable from it"""
    ensures("exact", forall(lambda n: (n in result) == exists(
        lambda q: q in find_all_paths(graph, vertex, None) and n in q)))
    ensures("closure-sound", forall(lambda n: implies(n in result, TReach(graph, vertex, n))))
    ensures("closure-complete", forall(lambda n: implies(TReach(graph, vertex, n), n in result)))
    return_hint(lemma("on-simple-paths", forall(lambda n: (n in res) == exists(
        lambda q: q in find_all_paths(graph, vertex, None) and n in q))))
    return_hint(lemma("reachable-means-on-a-simple-path", forall(lambda n: implies(
        TReach(graph, vertex, n) and ReachIsOnSimplePath(graph, vertex, n),
        exists(lambda q: PathExt(graph, Prefix(None, vertex), q) and n in q)),
        triggers=[TReach(graph, vertex, n)])))
    return_hint(lemma("on-a-simple-path-means-reachable", forall(lambda n, q: implies(
        PathExt(graph, Prefix(None, vertex), q) and n in q and ReachIsOnSimplePath(graph, vertex, n),
        TReach(graph, vertex, n)), triggers=[(PathExt(graph, Prefix(None, vertex), q), n in q)])))
    # the completeness clause of find_all_paths' contract, re-stated with a single trigger
    return_hint(lemma("every-simple-path-is-listed", forall(lambda q: implies(
        PathExt(graph, Prefix(None, vertex), q), q in find_all_paths(graph, vertex, None)),
        triggers=[PathExt(graph, Prefix(None, vertex), q)])))
    local(res="Set[Node]")
    entry_hint(lemma("finite-list", MaxPrefixLemma(find_all_paths(graph, vertex, None))))
    with loop("0"):
        invariant("union", forall(lambda n: (n in res) == exists(lambda k: 0 <= k and k < _i0 and n in _s0[k])))
