"""C18 (proof part): the random draws of the generator and of the mutations never see an empty range / an empty candidate list.

random.randint(a, b) raises ValueError when a > b, random.choice(xs) raises IndexError on an empty sequence, random.sample(xs, k)
raises ValueError when k > len(xs) -- each would be reported to the user as a failure of the compiler under test (C18).  Every
function below is verified in slice mode (DESIGN 2.7): the site obligations sit at the calls of ut.random.choice / integer /
sample; statements outside the subset are havocked.  Functions of /repo that draw from a collection whose non-emptiness depends
on what a callee returns (find_subtypes, get_types, get_generators, ...) are NOT listed: for them the bounded exploration of C18
is all there is (props/C18.py NOT_UNDER_CONTRACT).  The limits of the generator configuration are global invariants: they hold
for the literal defaults of src/generators/config.py and nothing else stores them (pyvc.statecheck.config_invariants, syntactic).
The skeleton (one contract per function that contains a draw) was produced once by tools/gen_ranges_skeleton.py.
Parsed by pyvc, never executed."""
declare_class("Cfg")
declare_class("CfgLimits")
declare_class("CfgCls")
declare_class("CfgFn")
fields("Cfg", limits="CfgLimits")
fields("CfgLimits", cls="CfgCls", fn="CfgFn", max_type_params="Int", max_var_decls="Int", max_functional_params="Int")
fields("CfgCls", max_fields="Int", max_funcs="Int")
fields("CfgFn", max_side_effects="Int", max_params="Int")
global_var("src.generators.config.cfg", "Cfg")


@profile("ranges", slice=True, heap_closed=True,
         immutable_fields="limits,cls,fn,max_type_params,max_var_decls,max_functional_params,max_fields,max_funcs,max_side_effects,max_params",
         immutable_globals="src.generators.config.cfg")
def _():
    modifies(".*")
    global_invariant("max_fields", cfg.limits.cls.max_fields >= 1)
    global_invariant("max_funcs", cfg.limits.cls.max_funcs >= 2)
    global_invariant("max_params", cfg.limits.fn.max_params >= 0)
    global_invariant("max_side_effects", cfg.limits.fn.max_side_effects >= 0)
    global_invariant("max_type_params", cfg.limits.max_type_params >= 3)


@external("src.utils.random.choice")
def _(choices: "Any") -> "Any":
    requires("non-empty", truthy(choices))

@external("src.utils.random.integer")
def _(min_int: "Int", max_int: "Int") -> "Int":
    requires("non-empty-range", min_int <= max_int)
    ensures("in-range", min_int <= result and result <= max_int)

@external("src.utils.random.sample")
def _(population: "Any", k: "Int") -> "Any":
    pass

@external("src.utils.random.bool/1")
def _(prob: "Any") -> "Bool":
    pass

@external("src.utils.random.bool/0")
def _() -> "Bool":
    pass

load_module("src.generators.generator")

@contract("src.generators.generator.Generator.gen_top_level_declaration")
def _(self: "Generator") -> "Any":
    use_profile("ranges")
    site_call("random.choice", "non-empty", truthy(arg0))
    site_call("random.integer", "non-empty-range", arg0 <= arg1)
    site_call("random.sample", "sample-size", 0 <= kw_k and kw_k <= len(arg0))


@contract("src.generators.generator.Generator._gen_func_params_with_default")
def _(self: "Generator") -> "Any":
    use_profile("ranges")
    site_call("random.choice", "non-empty", truthy(arg0))
    site_call("random.integer", "non-empty-range", arg0 <= arg1)
    site_call("random.sample", "sample-size", 0 <= kw_k and kw_k <= len(arg0))


@contract("src.generators.generator.Generator._select_superclass")
def _(self: "Generator", only_interfaces: "Any") -> "Any":
    use_profile("ranges")
    site_call("random.choice", "non-empty", truthy(arg0))
    site_call("random.integer", "non-empty-range", arg0 <= arg1)
    site_call("random.sample", "sample-size", 0 <= kw_k and kw_k <= len(arg0))


@contract("src.generators.generator.Generator.gen_class_fields")
def _(self: "Generator", curr_cls: "Any", super_cls_info: "Any", field_type: "Any") -> "Any":
    use_profile("ranges")
    site_call("random.choice", "non-empty", truthy(arg0))
    site_call("random.integer", "non-empty-range", arg0 <= arg1)
    site_call("random.sample", "sample-size", 0 <= kw_k and kw_k <= len(arg0))


@contract("src.generators.generator.Generator.gen_class_functions")
def _(self: "Generator", curr_cls: "Any", super_cls_info: "Any", not_void: "Any", fret_type: "Any", signature: "Any") -> "Any":
    use_profile("ranges")
    site_call("random.choice", "non-empty", truthy(arg0))
    site_call("random.integer", "non-empty-range", arg0 <= arg1)
    site_call("random.sample", "sample-size", 0 <= kw_k and kw_k <= len(arg0))


@contract("src.generators.generator.Generator.gen_assignment")
def _(self: "Generator", expr_type: "Any", only_leaves: "Any", subtype: "Any") -> "Any":
    use_profile("ranges")
    site_call("random.choice", "non-empty", truthy(arg0))
    site_call("random.integer", "non-empty-range", arg0 <= arg1)
    site_call("random.sample", "sample-size", 0 <= kw_k and kw_k <= len(arg0))


@contract("src.generators.generator.Generator._get_classes_with_assignable_fields")
def _(self: "Generator") -> "Any":
    use_profile("ranges")
    site_call("random.choice", "non-empty", truthy(arg0))
    site_call("random.integer", "non-empty-range", arg0 <= arg1)
    site_call("random.sample", "sample-size", 0 <= kw_k and kw_k <= len(arg0))


@contract("src.generators.generator.Generator.gen_field_access")
def _(self: "Generator", etype: "Any", only_leaves: "Any", subtype: "Any") -> "Any":
    use_profile("ranges")
    # _get_matching_objects returns a list (assumed: the declared type of the local); an empty one gets one entry appended,
    # and the unfiltered comprehension keeps the length
    local(objs="Seq[Any]")
    site_call("random.choice", "non-empty", truthy(arg0))
    site_call("random.integer", "non-empty-range", arg0 <= arg1)
    site_call("random.sample", "sample-size", 0 <= kw_k and kw_k <= len(arg0))


@contract("src.generators.generator.Generator.gen_array_expr")
def _(self: "Generator", expr_type: "Any", only_leaves: "Any", subtype: "Any") -> "Any":
    use_profile("ranges")
    site_call("random.choice", "non-empty", truthy(arg0))
    site_call("random.integer", "non-empty-range", arg0 <= arg1)
    site_call("random.sample", "sample-size", 0 <= kw_k and kw_k <= len(arg0))


@contract("src.generators.generator.Generator.gen_is_expr")
def _(self: "Generator", expr_type: "Any", only_leaves: "Any", subtype: "Any") -> "Any":
    use_profile("ranges")
    site_call("random.choice", "non-empty", truthy(arg0))
    site_call("random.integer", "non-empty-range", arg0 <= arg1)
    site_call("random.sample", "sample-size", 0 <= kw_k and kw_k <= len(arg0))


@contract("src.generators.generator.Generator._gen_func_call")
def _(self: "Generator", etype: "Any", only_leaves: "Any", subtype: "Any") -> "Any":
    use_profile("ranges")
    site_call("random.choice", "non-empty", truthy(arg0))
    site_call("random.integer", "non-empty-range", arg0 <= arg1)
    site_call("random.sample", "sample-size", 0 <= kw_k and kw_k <= len(arg0))


@contract("src.generators.generator.Generator._gen_func_call_ref")
def _(self: "Generator", etype: "Any", only_leaves: "Any", subtype: "Any") -> "Any":
    use_profile("ranges")
    site_call("random.choice", "non-empty", truthy(arg0))
    site_call("random.integer", "non-empty-range", arg0 <= arg1)
    site_call("random.sample", "sample-size", 0 <= kw_k and kw_k <= len(arg0))


@contract("src.generators.generator.Generator._gen_func_ref")
def _(self: "Generator", etype: "Any", only_leaves: "Any") -> "Any":
    use_profile("ranges")
    site_call("random.choice", "non-empty", truthy(arg0))
    site_call("random.integer", "non-empty-range", arg0 <= arg1)
    site_call("random.sample", "sample-size", 0 <= kw_k and kw_k <= len(arg0))


@contract("src.generators.generator.Generator.gen_type_params")
def _(self: "Generator", count: "Opt[Int]", with_variance: "Any", blacklist: "Any", for_function: "Any") -> "Any":
    use_profile("ranges")
    site_call("random.choice", "non-empty", truthy(arg0))
    site_call("random.integer", "non-empty-range", arg0 <= arg1)
    site_call("random.sample", "sample-size", 0 <= kw_k and kw_k <= len(arg0))
    # callers pass the number of type variables of a type of the program: at most 4 (Function3<A1, A2, A3, R>),
    # not proved here (assumed precondition; the bounded exploration runs the real callers)
    requires("count", count is None or (0 <= count and count <= 4))


@contract("src.generators.generator.Generator._get_func_ret_type")
def _(self: "Generator", params: "Any", etype: "Any", not_void: "Any") -> "Any":
    use_profile("ranges")
    site_call("random.choice", "non-empty", truthy(arg0))
    site_call("random.integer", "non-empty-range", arg0 <= arg1)
    site_call("random.sample", "sample-size", 0 <= kw_k and kw_k <= len(arg0))


@contract("src.generators.generator.Generator._gen_func_params")
def _(self: "Generator") -> "Any":
    use_profile("ranges")
    site_call("random.choice", "non-empty", truthy(arg0))
    site_call("random.integer", "non-empty-range", arg0 <= arg1)
    site_call("random.sample", "sample-size", 0 <= kw_k and kw_k <= len(arg0))


@contract("src.generators.generator.Generator._gen_side_effects")
def _(self: "Generator") -> "Any":
    use_profile("ranges")
    site_call("random.choice", "non-empty", truthy(arg0))
    site_call("random.integer", "non-empty-range", arg0 <= arg1)
    site_call("random.sample", "sample-size", 0 <= kw_k and kw_k <= len(arg0))


@contract("src.generators.generator.Generator._get_matching_class")
def _(self: "Generator", etype: "Any", subtype: "Any", attr_name: "Any", signature: "Any") -> "Any":
    use_profile("ranges")
    site_call("random.choice", "non-empty", truthy(arg0))
    site_call("random.integer", "non-empty-range", arg0 <= arg1)
    site_call("random.sample", "sample-size", 0 <= kw_k and kw_k <= len(arg0))


load_module("src.generators.generators")

@contract("src.generators.generators.gen_integer_constant")
def _(expr_type: "Any") -> "Any":
    use_profile("ranges")
    site_call("random.choice", "non-empty", truthy(arg0))
    site_call("random.integer", "non-empty-range", arg0 <= arg1)
    site_call("random.sample", "sample-size", 0 <= kw_k and kw_k <= len(arg0))


@contract("src.generators.generators.gen_real_constant")
def _(expr_type: "Any") -> "Any":
    use_profile("ranges")
    site_call("random.choice", "non-empty", truthy(arg0))
    site_call("random.integer", "non-empty-range", arg0 <= arg1)
    site_call("random.sample", "sample-size", 0 <= kw_k and kw_k <= len(arg0))


@contract("src.generators.generators.gen_bool_constant")
def _(expr_type: "Any") -> "Any":
    use_profile("ranges")
    site_call("random.choice", "non-empty", truthy(arg0))
    site_call("random.integer", "non-empty-range", arg0 <= arg1)
    site_call("random.sample", "sample-size", 0 <= kw_k and kw_k <= len(arg0))


load_module("src.generators.utils")

@contract("src.generators.utils.select_class_type")
def _(contain_fields: "Any") -> "Any":
    use_profile("ranges")
    site_call("random.choice", "non-empty", truthy(arg0))
    site_call("random.integer", "non-empty-range", arg0 <= arg1)
    site_call("random.sample", "sample-size", 0 <= kw_k and kw_k <= len(arg0))


load_module("src.ir.type_utils")

@contract("src.ir.type_utils.find_irrelevant_type")
def _(etype: "Any", types: "Any", factory: "Any") -> "Any":
    use_profile("ranges")
    site_call("random.choice", "non-empty", truthy(arg0))
    site_call("random.integer", "non-empty-range", arg0 <= arg1)
    site_call("random.sample", "sample-size", 0 <= kw_k and kw_k <= len(arg0))


load_module("src.transformations.type_overwriting")
fields("TypeOverwriting", _candidate_methods="Any", _selected_method="Any", _method_selection="Any")

@contract("src.transformations.type_overwriting.TypeOverwriting.visit_program")
def _(self: "TypeOverwriting", node: "Any") -> "Any":
    use_profile("ranges")
    site_call("random.choice", "non-empty", truthy(arg0))
    site_call("random.integer", "non-empty-range", arg0 <= arg1)
    site_call("random.sample", "sample-size", 0 <= kw_k and kw_k <= len(arg0))




@contract("src.ir.type_utils._construct_related_types")
def _(etype: "Any", types: "Any", get_subtypes: "Any", ignore_variance: "Any") -> "Any":
    """the type argument of a related instantiation is drawn from the candidates that are left after the primitives have
    been removed: that list must not be empty at the draw"""
    use_profile("ranges")
    local(t_args="Seq[Any]")
    # (C09) what the function can hand out: the query itself (nothing related could be built) or an instantiation made by
    # the query's OWN generic class from the chosen arguments -- every return statement is listed
    site_return("etype", "gives-back-the-query", True)
    site_return("etype.t_constructor.new(list(type_var_map.values()))", "instantiates-the-query's-own-class", True)
    site_call("random.choice", "non-empty", truthy(arg0))
    site_call("random.integer", "non-empty-range", arg0 <= arg1)
    site_call("random.sample", "sample-size", 0 <= kw_k and kw_k <= len(arg0))
