"""Contracts for src/ir/context.py and utils.prefix_lst (property C16).  Parsed by pyvc, never executed.

Abstract view of a Context (DESIGN.md C16):
    has_ns(ns)            ns in self._context
    Ent(c, ns, kind)      the insertion-ordered name -> declaration map of one namespace and kind (empty if absent)
    rev                   self._namespaces, the reverse index declaration -> namespace
    CtxInv                every existing namespace has the six kinds
"""
sort("Decl")
alias("Ns", "Tuple[Str]")
alias("DMap", "Map[Str,Opt[Decl]]")
alias("EMap", "Map[Str,DMap]")
alias("CMap", "Map[Ns,EMap]")
alias("RMap", "Map[Opt[Decl],Ns]")
fields("Context", _context="CMap", _namespaces="RMap")
bound(ns="Ns", ns2="Ns", p="Ns", q="Ns", c="CMap", kind="Str", kind2="Str", nm="Str", nm2="Str", j="Int", j2="Int",
      d="Opt[Decl]", o="Context", hi="Int")


@ghost
def IsKind(kind: "Str") -> "Bool":
    define(kind == 'types' or kind == 'funcs' or kind == 'lambdas' or kind == 'vars' or kind == 'classes'
           or kind == 'decls')


@ghost
def CtxInv(c: "CMap") -> "Bool":
    define(forall(lambda ns: implies(ns in c, 'types' in c[ns] and 'funcs' in c[ns] and 'lambdas' in c[ns]
                                     and 'vars' in c[ns] and 'classes' in c[ns] and 'decls' in c[ns]),
                  triggers=[ns in c]))


@ghost
def Ent(c: "CMap", ns: "Ns", kind: "Str") -> "DMap":
    """entries of one kind in one namespace; the empty map when the namespace or the kind is absent"""
    define(ite(ns in c and kind in c[ns], c[ns][kind], empty_map("DMap")))


# ---------------------------------------------------------------- mutators
@contract("src.ir.context.Context.__init__")
def _(self: "Context") -> "None":
    modifies("._context", "._namespaces")
    ensures("empty", len(self._context) == 0 and len(self._namespaces) == 0)
    ensures("inv", CtxInv(self._context))
    ensures("frame", forall(lambda o: implies(o != self, unchanged(o, '_context', '_namespaces'))))


@contract("src.ir.context.Context._add_entity")
def _(self: "Context", namespace: "Ns", entity: "Str", name: "Str", value: "Opt[Decl]") -> "None":
    requires("inv", CtxInv(self._context))
    requires("kind", IsKind(entity))
    modifies("._context", "._namespaces")
    ensures("inv", CtxInv(self._context))
    ensures("has-ns", forall(lambda ns: (ns in self._context) == (ns in old(self._context) or ns == namespace)))
    ensures("entry", Ent(self._context, namespace, entity) == put(Ent(old(self._context), namespace, entity), name, value))
    ensures("others", forall(lambda ns, kind: implies(IsKind(kind) and not (ns == namespace and kind == entity),
                                                      Ent(self._context, ns, kind) == Ent(old(self._context), ns, kind))))
    ensures("rev", self._namespaces == put(old(self._namespaces), value, namespace))
    ensures("frame", forall(lambda o: implies(o != self, unchanged(o, '_context', '_namespaces'))))


@contract("src.ir.context.Context._remove_entity")
def _(self: "Context", namespace: "Ns", entity: "Str", name: "Str") -> "None":
    requires("inv", CtxInv(self._context))
    requires("kind", IsKind(entity))
    modifies("._context", "._namespaces")
    ensures("inv", CtxInv(self._context))
    ensures("has-ns", forall(lambda ns: (ns in self._context) == (ns in old(self._context))))
    ensures("entry", Ent(self._context, namespace, entity) == rem(Ent(old(self._context), namespace, entity), name))
    ensures("others", forall(lambda ns, kind: implies(IsKind(kind) and not (ns == namespace and kind == entity),
                                                      Ent(self._context, ns, kind) == Ent(old(self._context), ns, kind))))
    ensures("rev", self._namespaces == ite(name in Ent(old(self._context), namespace, entity),
                                           rem(old(self._namespaces), Ent(old(self._context), namespace, entity)[name]),
                                           old(self._namespaces)))
    ensures("frame", forall(lambda o: implies(o != self, unchanged(o, '_context', '_namespaces'))))


@contract("src.ir.context.Context.add_type")
def _(self: "Context", namespace: "Ns", type_name: "Str", t: "Opt[Decl]") -> "None":
    requires("inv", CtxInv(self._context))
    modifies("._context", "._namespaces")
    ensures("inv", CtxInv(self._context))
    ensures("has-ns", forall(lambda ns: (ns in self._context) == (ns in old(self._context) or ns == namespace)))
    ensures("entry", Ent(self._context, namespace, 'types') == put(Ent(old(self._context), namespace, 'types'), type_name, t))
    ensures("others", forall(lambda ns, kind: implies(IsKind(kind) and not (ns == namespace and kind == 'types'),
                                                      Ent(self._context, ns, kind) == Ent(old(self._context), ns, kind))))
    ensures("rev", self._namespaces == put(old(self._namespaces), t, namespace))
    ensures("frame", forall(lambda o: implies(o != self, unchanged(o, '_context', '_namespaces'))))


@contract("src.ir.context.Context.add_lambda")
def _(self: "Context", namespace: "Ns", shadow_name: "Str", lmd: "Opt[Decl]") -> "None":
    requires("inv", CtxInv(self._context))
    modifies("._context", "._namespaces")
    ensures("inv", CtxInv(self._context))
    ensures("has-ns", forall(lambda ns: (ns in self._context) == (ns in old(self._context) or ns == namespace)))
    ensures("entry", Ent(self._context, namespace, 'lambdas') == put(Ent(old(self._context), namespace, 'lambdas'), shadow_name, lmd))
    ensures("others", forall(lambda ns, kind: implies(IsKind(kind) and not (ns == namespace and kind == 'lambdas'),
                                                      Ent(self._context, ns, kind) == Ent(old(self._context), ns, kind))))
    ensures("rev", self._namespaces == put(old(self._namespaces), lmd, namespace))
    ensures("frame", forall(lambda o: implies(o != self, unchanged(o, '_context', '_namespaces'))))


@contract("src.ir.context.Context.add_func")
def _(self: "Context", namespace: "Ns", func_name: "Str", func: "Opt[Decl]") -> "None":
    requires("inv", CtxInv(self._context))
    modifies("._context", "._namespaces")
    ensures("inv", CtxInv(self._context))
    ensures("has-ns", forall(lambda ns: (ns in self._context) == (ns in old(self._context) or ns == namespace)))
    ensures("entry", Ent(self._context, namespace, 'funcs') == put(Ent(old(self._context), namespace, 'funcs'), func_name, func))
    ensures("decls", Ent(self._context, namespace, 'decls') == put(Ent(old(self._context), namespace, 'decls'), func_name, func))
    ensures("others", forall(lambda ns, kind: implies(
        IsKind(kind) and not (ns == namespace and (kind == 'funcs' or kind == 'decls')),
        Ent(self._context, ns, kind) == Ent(old(self._context), ns, kind))))
    ensures("rev", self._namespaces == put(old(self._namespaces), func, namespace))
    ensures("frame", forall(lambda o: implies(o != self, unchanged(o, '_context', '_namespaces'))))


@contract("src.ir.context.Context.add_var")
def _(self: "Context", namespace: "Ns", var_name: "Str", var: "Opt[Decl]") -> "None":
    requires("inv", CtxInv(self._context))
    modifies("._context", "._namespaces")
    ensures("inv", CtxInv(self._context))
    ensures("has-ns", forall(lambda ns: (ns in self._context) == (ns in old(self._context) or ns == namespace)))
    ensures("entry", Ent(self._context, namespace, 'vars') == put(Ent(old(self._context), namespace, 'vars'), var_name, var))
    ensures("decls", Ent(self._context, namespace, 'decls') == put(Ent(old(self._context), namespace, 'decls'), var_name, var))
    ensures("others", forall(lambda ns, kind: implies(
        IsKind(kind) and not (ns == namespace and (kind == 'vars' or kind == 'decls')),
        Ent(self._context, ns, kind) == Ent(old(self._context), ns, kind))))
    ensures("rev", self._namespaces == put(old(self._namespaces), var, namespace))
    ensures("frame", forall(lambda o: implies(o != self, unchanged(o, '_context', '_namespaces'))))


@contract("src.ir.context.Context.add_class")
def _(self: "Context", namespace: "Ns", class_name: "Str", cls: "Opt[Decl]") -> "None":
    requires("inv", CtxInv(self._context))
    modifies("._context", "._namespaces")
    ensures("inv", CtxInv(self._context))
    ensures("has-ns", forall(lambda ns: (ns in self._context) == (ns in old(self._context) or ns == namespace)))
    ensures("entry", Ent(self._context, namespace, 'classes') == put(Ent(old(self._context), namespace, 'classes'), class_name, cls))
    ensures("decls", Ent(self._context, namespace, 'decls') == put(Ent(old(self._context), namespace, 'decls'), class_name, cls))
    ensures("others", forall(lambda ns, kind: implies(
        IsKind(kind) and not (ns == namespace and (kind == 'classes' or kind == 'decls')),
        Ent(self._context, ns, kind) == Ent(old(self._context), ns, kind))))
    ensures("rev", self._namespaces == put(old(self._namespaces), cls, namespace))
    ensures("frame", forall(lambda o: implies(o != self, unchanged(o, '_context', '_namespaces'))))


@ghost
def RevAfterRemove(r: "RMap", m: "DMap", nm: "Str") -> "RMap":
    """reverse index after removing the declaration stored under nm in m (if any)"""
    define(ite(nm in m, rem(r, m[nm]), r))


@contract("src.ir.context.Context.remove_type")
def _(self: "Context", namespace: "Ns", type_name: "Str") -> "None":
    requires("inv", CtxInv(self._context))
    modifies("._context", "._namespaces")
    ensures("inv", CtxInv(self._context))
    ensures("has-ns", forall(lambda ns: (ns in self._context) == (ns in old(self._context))))
    ensures("entry", Ent(self._context, namespace, 'types') == rem(Ent(old(self._context), namespace, 'types'), type_name))
    ensures("others", forall(lambda ns, kind: implies(IsKind(kind) and not (ns == namespace and kind == 'types'),
                                                      Ent(self._context, ns, kind) == Ent(old(self._context), ns, kind))))
    ensures("rev", self._namespaces == RevAfterRemove(old(self._namespaces), Ent(old(self._context), namespace, 'types'), type_name))
    ensures("frame", forall(lambda o: implies(o != self, unchanged(o, '_context', '_namespaces'))))


@contract("src.ir.context.Context.remove_lambda")
def _(self: "Context", namespace: "Ns", shadow_name: "Str") -> "None":
    requires("inv", CtxInv(self._context))
    modifies("._context", "._namespaces")
    ensures("inv", CtxInv(self._context))
    ensures("has-ns", forall(lambda ns: (ns in self._context) == (ns in old(self._context))))
    ensures("entry", Ent(self._context, namespace, 'lambdas') == rem(Ent(old(self._context), namespace, 'lambdas'), shadow_name))
    ensures("others", forall(lambda ns, kind: implies(IsKind(kind) and not (ns == namespace and kind == 'lambdas'),
                                                      Ent(self._context, ns, kind) == Ent(old(self._context), ns, kind))))
    ensures("rev", self._namespaces == RevAfterRemove(old(self._namespaces), Ent(old(self._context), namespace, 'lambdas'), shadow_name))
    ensures("frame", forall(lambda o: implies(o != self, unchanged(o, '_context', '_namespaces'))))


@contract("src.ir.context.Context.remove_var")
def _(self: "Context", namespace: "Ns", var_name: "Str") -> "None":
    requires("inv", CtxInv(self._context))
    modifies("._context", "._namespaces")
    ensures("inv", CtxInv(self._context))
    ensures("has-ns", forall(lambda ns: (ns in self._context) == (ns in old(self._context))))
    ensures("entry", Ent(self._context, namespace, 'vars') == rem(Ent(old(self._context), namespace, 'vars'), var_name))
    ensures("decls", Ent(self._context, namespace, 'decls') == rem(Ent(old(self._context), namespace, 'decls'), var_name))
    ensures("others", forall(lambda ns, kind: implies(
        IsKind(kind) and not (ns == namespace and (kind == 'vars' or kind == 'decls')),
        Ent(self._context, ns, kind) == Ent(old(self._context), ns, kind))))
    ensures("rev", self._namespaces == RevAfterRemove(
        RevAfterRemove(old(self._namespaces), Ent(old(self._context), namespace, 'vars'), var_name),
        Ent(old(self._context), namespace, 'decls'), var_name))
    ensures("frame", forall(lambda o: implies(o != self, unchanged(o, '_context', '_namespaces'))))


@contract("src.ir.context.Context.remove_func")
def _(self: "Context", namespace: "Ns", func_name: "Str") -> "None":
    requires("inv", CtxInv(self._context))
    modifies("._context", "._namespaces")
    ensures("inv", CtxInv(self._context))
    ensures("has-ns", forall(lambda ns: (ns in self._context) == (ns in old(self._context))))
    ensures("entry", Ent(self._context, namespace, 'funcs') == rem(Ent(old(self._context), namespace, 'funcs'), func_name))
    ensures("decls", Ent(self._context, namespace, 'decls') == rem(Ent(old(self._context), namespace, 'decls'), func_name))
    ensures("others", forall(lambda ns, kind: implies(
        IsKind(kind) and not (ns == namespace and (kind == 'funcs' or kind == 'decls')),
        Ent(self._context, ns, kind) == Ent(old(self._context), ns, kind))))
    ensures("rev", self._namespaces == RevAfterRemove(
        RevAfterRemove(old(self._namespaces), Ent(old(self._context), namespace, 'funcs'), func_name),
        Ent(old(self._context), namespace, 'decls'), func_name))
    ensures("frame", forall(lambda o: implies(o != self, unchanged(o, '_context', '_namespaces'))))


@contract("src.ir.context.Context.remove_class")
def _(self: "Context", namespace: "Ns", class_name: "Str") -> "None":
    requires("inv", CtxInv(self._context))
    modifies("._context", "._namespaces")
    ensures("inv", CtxInv(self._context))
    ensures("has-ns", forall(lambda ns: (ns in self._context) == (ns in old(self._context))))
    ensures("entry", Ent(self._context, namespace, 'classes') == rem(Ent(old(self._context), namespace, 'classes'), class_name))
    ensures("decls", Ent(self._context, namespace, 'decls') == rem(Ent(old(self._context), namespace, 'decls'), class_name))
    ensures("others", forall(lambda ns, kind: implies(
        IsKind(kind) and not (ns == namespace and (kind == 'classes' or kind == 'decls')),
        Ent(self._context, ns, kind) == Ent(old(self._context), ns, kind))))
    ensures("rev", self._namespaces == RevAfterRemove(
        RevAfterRemove(old(self._namespaces), Ent(old(self._context), namespace, 'classes'), class_name),
        Ent(old(self._context), namespace, 'decls'), class_name))
    ensures("frame", forall(lambda o: implies(o != self, unchanged(o, '_context', '_namespaces'))))


@contract("src.ir.context.Context.remove_namespace")
def _(self: "Context", namespace: "Ns") -> "None":
    requires("inv", CtxInv(self._context))
    modifies("._context")
    ensures("inv", CtxInv(self._context))
    ensures("has-ns", forall(lambda ns: (ns in self._context) == (ns in old(self._context) and ns != namespace)))
    ensures("others", forall(lambda ns, kind: implies(ns != namespace,
                                                      Ent(self._context, ns, kind) == Ent(old(self._context), ns, kind))))
    ensures("frame", forall(lambda o: implies(o != self, unchanged(o, '_context', '_namespaces'))))
    ensures("rev", unchanged(self, '_namespaces'))


# ---------------------------------------------------------------- queries
@contract("src.ir.context.Context.get_decl")
def _(self: "Context", namespace: "Ns", name: "Str") -> "Opt[Decl]":
    ensures("lookup", result == ite(name in Ent(self._context, namespace, 'decls'),
                                    Ent(self._context, namespace, 'decls')[name], None))


@contract("src.ir.context.Context.get_lambda")
def _(self: "Context", namespace: "Ns", name: "Str") -> "Opt[Decl]":
    ensures("lookup", result == ite(name in Ent(self._context, namespace, 'lambdas'),
                                    Ent(self._context, namespace, 'lambdas')[name], None))


@contract("src.ir.context.Context.get_namespace")
def _(self: "Context", decl: "Opt[Decl]") -> "Opt[Ns]":
    ensures("reverse", result == ite(decl in self._namespaces, self._namespaces[decl], None))


@ghost
def NoNone(m: "DMap") -> "DMap":
    """m without its artificial (None) entries, relative order kept"""
    axiom("has", forall(lambda m, nm: (nm in NoNone(m)) == (nm in m and m[nm] is not None), triggers=[nm in NoNone(m), (NoNone(m), nm in m)]))
    axiom("get", forall(lambda m, nm: implies(nm in NoNone(m), NoNone(m)[nm] == m[nm]), triggers=[NoNone(m)[nm]]))
    axiom("order", forall(lambda m: same(keys(NoNone(m)), restrict(keys(m), NoNone(m))), triggers=[keys(NoNone(m))]))
bound(m="DMap")


@ghost
def PathDecls(c: "CMap", ns: "Ns", kind: "Str", hi: "Int") -> "DMap":
    """union of the entries along the namespace path take(ns,1) .. take(ns,hi), inner entries shadowing outer ones"""
    axiom("base", forall(lambda c, ns, kind: same(PathDecls(c, ns, kind, 1), Ent(c, take(ns, 1), kind)),
                         triggers=[PathDecls(c, ns, kind, 1)]))
    axiom("step", forall(lambda c, ns, kind, hi, k: implies(
        k == hi - 1 and k >= 1, same(PathDecls(c, ns, kind, hi), mupdate(PathDecls(c, ns, kind, k), Ent(c, take(ns, hi), kind)))),
        triggers=[(PathDecls(c, ns, kind, hi), PathDecls(c, ns, kind, k))]))


@contract("src.ir.context.Context._get_declarations")
def _(self: "Context", namespace: "Ns", decl_type: "Str", only_current: "Bool", glob: "Bool", none: "Bool") -> "DMap":
    requires("nonempty-ns", len(namespace) >= 1)
    ensures("current-all", implies(not glob and (len(namespace) == 1 or only_current) and none,
                                   result == Ent(self._context, namespace, decl_type)))
    ensures("current-real", implies(not glob and (len(namespace) == 1 or only_current) and not none,
                                    result == NoNone(Ent(self._context, namespace, decl_type))))
    ensures("path-all", implies(not glob and not (len(namespace) == 1 or only_current) and none,
                                map_eqv(result, PathDecls(self._context, namespace, decl_type, len(namespace)))))
    ensures("path-real", implies(not glob and not (len(namespace) == 1 or only_current) and not none,
                                 map_eqv(result, NoNone(PathDecls(self._context, namespace, decl_type, len(namespace))))))
    ensures("glob-all", implies(glob and none, GlobDecls(self._context, take(namespace, 1), decl_type, result)))
    ensures("glob-real", implies(glob and not none, exists(lambda m: GlobDecls(self._context, take(namespace, 1), decl_type, m)
                                                           and map_eqv(result, NoNone(m)))))
    local(decls="DMap", start="Ns")
    with loop("0"):
        invariant("start", start == take(namespace, _i0 + 1))
        invariant("decls", map_eqv(decls, PathDecls(self._context, namespace, decl_type, _i0 + 1)))


@ghost(least_fixpoint=True)
def NsReach(c: "CMap", p: "Ns", q: "Ns") -> "Bool":
    """q is reachable from p by repeatedly appending the name of a function or class declared in the current namespace"""
    rule("base", forall(lambda c, p: NsReach(c, p, p)))
    rule("step", forall(lambda c, p, q, nm: implies(
        NsReach(c, p, q) and (nm in Ent(c, q, 'funcs') or nm in Ent(c, q, 'classes')), NsReach(c, p, q + (nm,)))))


@ghost
def GlobDecls(c: "CMap", root: "Ns", kind: "Str", m: "DMap") -> "Bool":
    """m is a merge of the entries of every namespace reachable from root: its keys are exactly the names declared in
    some reachable namespace and each value is the entry of one such namespace"""
    define(forall(lambda nm: (nm in m) == exists(lambda q: NsReach(c, root, q) and nm in Ent(c, q, kind)))
           and forall(lambda nm: implies(nm in m, exists(lambda q: NsReach(c, root, q) and nm in Ent(c, q, kind)
                                                         and m[nm] == Ent(c, q, kind)[nm]))))


@contract("src.ir.context.Context._get_declarations_glob")
def _(self: "Context", namespace: "Ns", decl_type: "Str") -> "DMap":
    """worklist without a visited set.  Ghost set `processed` = namespaces already merged into decls."""
    requires("nonempty-ns", len(namespace) >= 1)
    ensures("glob", GlobDecls(self._context, take(old(namespace), 1), decl_type, result))
    local(decls="DMap", namespaces="Seq[Ns]")
    ghost_local(processed="Set[Ns]")
    return_hint(lemma("complete", forall(lambda nm, q: implies(
        NsReach(self._context, take(old(namespace), 1), q) and nm in Ent(self._context, q, decl_type), nm in result))))
    return_hint(lemma("sound", forall(lambda nm: implies(nm in result, exists(lambda q: (
        NsReach(self._context, take(old(namespace), 1), q) and nm in Ent(self._context, q, decl_type)
        and result[nm] == Ent(self._context, q, decl_type)[nm]))))))
    return_hint(lemma("keys", forall(lambda nm: (nm in result) == exists(lambda q: NsReach(self._context, take(old(namespace), 1), q) and nm in Ent(self._context, q, decl_type)))))
    entry_hint(lemma("root", (namespace[0],) == take(namespace, 1)))
    with loop("0"):
        invariant("wl-reach", forall(lambda p: implies(p in namespaces, len(p) >= 1 and NsReach(
            self._context, take(old(namespace), 1), p))))
        invariant("processed-reach", forall(lambda p: implies(p in processed, NsReach(
            self._context, take(old(namespace), 1), p))))
        invariant("root", take(old(namespace), 1) in processed or take(old(namespace), 1) in namespaces)
        invariant("closed", forall(lambda p, nm: implies(
            p in processed and (nm in Ent(self._context, p, 'funcs') or nm in Ent(self._context, p, 'classes')),
            (p + (nm,)) in processed or (p + (nm,)) in namespaces)))
        invariant("covered", forall(lambda p, nm: implies(p in processed and nm in Ent(self._context, p, decl_type),
                                                          nm in decls)))
        invariant("sound", forall(lambda nm: implies(nm in decls, exists(lambda q: (
            NsReach(self._context, take(old(namespace), 1), q) and nm in Ent(self._context, q, decl_type)
            and decls[nm] == Ent(self._context, q, decl_type)[nm])))))
        end_hint(assign("processed", set_add(processed, namespace)))
        exit_hint(induct("NsReach", lambda c, p, q: implies(
            same(c, self._context) and same(p, take(old(namespace), 1)), q in processed)))

@contract("src.ir.context.Context.get_types")
def _(self: "Context", namespace: "Ns", only_current: "Bool", glob: "Bool", none: "Bool") -> "DMap":
    requires("nonempty-ns", len(namespace) >= 1)
    ensures("current-all", implies(not glob and (len(namespace) == 1 or only_current) and none,
                                   result == Ent(self._context, namespace, 'types')))
    ensures("current-real", implies(not glob and (len(namespace) == 1 or only_current) and not none,
                                    result == NoNone(Ent(self._context, namespace, 'types'))))
    ensures("path-all", implies(not glob and not (len(namespace) == 1 or only_current) and none,
                                map_eqv(result, PathDecls(self._context, namespace, 'types', len(namespace)))))
    ensures("path-real", implies(not glob and not (len(namespace) == 1 or only_current) and not none,
                                 map_eqv(result, NoNone(PathDecls(self._context, namespace, 'types', len(namespace))))))
    ensures("glob-all", implies(glob and none, GlobDecls(self._context, take(namespace, 1), 'types', result)))
    ensures("glob-real", implies(glob and not none, exists(lambda m: GlobDecls(self._context, take(namespace, 1), 'types', m)
                                                           and map_eqv(result, NoNone(m)))))


@contract("src.ir.context.Context.get_funcs")
def _(self: "Context", namespace: "Ns", only_current: "Bool", glob: "Bool", none: "Bool") -> "DMap":
    requires("nonempty-ns", len(namespace) >= 1)
    ensures("current-all", implies(not glob and (len(namespace) == 1 or only_current) and none,
                                   result == Ent(self._context, namespace, 'funcs')))
    ensures("current-real", implies(not glob and (len(namespace) == 1 or only_current) and not none,
                                    result == NoNone(Ent(self._context, namespace, 'funcs'))))
    ensures("path-all", implies(not glob and not (len(namespace) == 1 or only_current) and none,
                                map_eqv(result, PathDecls(self._context, namespace, 'funcs', len(namespace)))))
    ensures("path-real", implies(not glob and not (len(namespace) == 1 or only_current) and not none,
                                 map_eqv(result, NoNone(PathDecls(self._context, namespace, 'funcs', len(namespace))))))
    ensures("glob-all", implies(glob and none, GlobDecls(self._context, take(namespace, 1), 'funcs', result)))
    ensures("glob-real", implies(glob and not none, exists(lambda m: GlobDecls(self._context, take(namespace, 1), 'funcs', m)
                                                           and map_eqv(result, NoNone(m)))))


@contract("src.ir.context.Context.get_lambdas")
def _(self: "Context", namespace: "Ns", only_current: "Bool", glob: "Bool", none: "Bool") -> "DMap":
    requires("nonempty-ns", len(namespace) >= 1)
    ensures("current-all", implies(not glob and (len(namespace) == 1 or only_current) and none,
                                   result == Ent(self._context, namespace, 'lambdas')))
    ensures("current-real", implies(not glob and (len(namespace) == 1 or only_current) and not none,
                                    result == NoNone(Ent(self._context, namespace, 'lambdas'))))
    ensures("path-all", implies(not glob and not (len(namespace) == 1 or only_current) and none,
                                map_eqv(result, PathDecls(self._context, namespace, 'lambdas', len(namespace)))))
    ensures("path-real", implies(not glob and not (len(namespace) == 1 or only_current) and not none,
                                 map_eqv(result, NoNone(PathDecls(self._context, namespace, 'lambdas', len(namespace))))))
    ensures("glob-all", implies(glob and none, GlobDecls(self._context, take(namespace, 1), 'lambdas', result)))
    ensures("glob-real", implies(glob and not none, exists(lambda m: GlobDecls(self._context, take(namespace, 1), 'lambdas', m)
                                                           and map_eqv(result, NoNone(m)))))


@contract("src.ir.context.Context.get_vars")
def _(self: "Context", namespace: "Ns", only_current: "Bool", glob: "Bool", none: "Bool") -> "DMap":
    requires("nonempty-ns", len(namespace) >= 1)
    ensures("current-all", implies(not glob and (len(namespace) == 1 or only_current) and none,
                                   result == Ent(self._context, namespace, 'vars')))
    ensures("current-real", implies(not glob and (len(namespace) == 1 or only_current) and not none,
                                    result == NoNone(Ent(self._context, namespace, 'vars'))))
    ensures("path-all", implies(not glob and not (len(namespace) == 1 or only_current) and none,
                                map_eqv(result, PathDecls(self._context, namespace, 'vars', len(namespace)))))
    ensures("path-real", implies(not glob and not (len(namespace) == 1 or only_current) and not none,
                                 map_eqv(result, NoNone(PathDecls(self._context, namespace, 'vars', len(namespace))))))
    ensures("glob-all", implies(glob and none, GlobDecls(self._context, take(namespace, 1), 'vars', result)))
    ensures("glob-real", implies(glob and not none, exists(lambda m: GlobDecls(self._context, take(namespace, 1), 'vars', m)
                                                           and map_eqv(result, NoNone(m)))))


@contract("src.ir.context.Context.get_classes")
def _(self: "Context", namespace: "Ns", only_current: "Bool", glob: "Bool", none: "Bool") -> "DMap":
    requires("nonempty-ns", len(namespace) >= 1)
    ensures("current-all", implies(not glob and (len(namespace) == 1 or only_current) and none,
                                   result == Ent(self._context, namespace, 'classes')))
    ensures("current-real", implies(not glob and (len(namespace) == 1 or only_current) and not none,
                                    result == NoNone(Ent(self._context, namespace, 'classes'))))
    ensures("path-all", implies(not glob and not (len(namespace) == 1 or only_current) and none,
                                map_eqv(result, PathDecls(self._context, namespace, 'classes', len(namespace)))))
    ensures("path-real", implies(not glob and not (len(namespace) == 1 or only_current) and not none,
                                 map_eqv(result, NoNone(PathDecls(self._context, namespace, 'classes', len(namespace))))))
    ensures("glob-all", implies(glob and none, GlobDecls(self._context, take(namespace, 1), 'classes', result)))
    ensures("glob-real", implies(glob and not none, exists(lambda m: GlobDecls(self._context, take(namespace, 1), 'classes', m)
                                                           and map_eqv(result, NoNone(m)))))


@contract("src.ir.context.Context.get_declarations")
def _(self: "Context", namespace: "Ns", only_current: "Bool", glob: "Bool", none: "Bool") -> "DMap":
    requires("nonempty-ns", len(namespace) >= 1)
    ensures("current-all", implies(not glob and (len(namespace) == 1 or only_current) and none,
                                   result == Ent(self._context, namespace, 'decls')))
    ensures("current-real", implies(not glob and (len(namespace) == 1 or only_current) and not none,
                                    result == NoNone(Ent(self._context, namespace, 'decls'))))
    ensures("path-all", implies(not glob and not (len(namespace) == 1 or only_current) and none,
                                map_eqv(result, PathDecls(self._context, namespace, 'decls', len(namespace)))))
    ensures("path-real", implies(not glob and not (len(namespace) == 1 or only_current) and not none,
                                 map_eqv(result, NoNone(PathDecls(self._context, namespace, 'decls', len(namespace))))))
    ensures("glob-all", implies(glob and none, GlobDecls(self._context, take(namespace, 1), 'decls', result)))
    ensures("glob-real", implies(glob and not none, exists(lambda m: GlobDecls(self._context, take(namespace, 1), 'decls', m)
                                                           and map_eqv(result, NoNone(m)))))


# ---------------------------------------------------------------- namespaces
@contract("src.ir.context.Context.find_namespaces")
def _(self: "Context", namespace: "Ns", none: "Bool") -> "Seq[Ns]":
    requires("nonempty-ns", len(namespace) >= 1)
    ensures("children-sound", forall(lambda p: implies(p in result, exists(lambda nm: p == namespace + (nm,) and (
        (nm in Ent(self._context, namespace, 'funcs') and (none or Ent(self._context, namespace, 'funcs')[nm] is not None)) or
        (nm in Ent(self._context, namespace, 'classes') and (none or Ent(self._context, namespace, 'classes')[nm] is not None)))))))
    ensures("children-complete", forall(lambda nm: implies(
        (nm in Ent(self._context, namespace, 'funcs') and (none or Ent(self._context, namespace, 'funcs')[nm] is not None)) or
        (nm in Ent(self._context, namespace, 'classes') and (none or Ent(self._context, namespace, 'classes')[nm] is not None)),
        (namespace + (nm,)) in result)))


@contract("src.utils.prefix_lst", pure=True)
def _(prefix: "Ns", lst: "Ns") -> "Bool":
    ensures("is-prefix", result == (1 <= len(prefix) and len(prefix) <= len(lst) and seq_eq(take(lst, len(prefix)), prefix)))
    return_hint(use(lst[:len(prefix)]))


@contract("src.ir.context.Context.get_declarations_in")
def _(self: "Context", namespace: "Ns") -> "Map[Ns,DMap]":
    requires("inv", CtxInv(self._context))
    ensures("keys", forall(lambda ns: (ns in result) == (ns in self._context and len(namespace) >= 1
                                                         and len(namespace) <= len(ns)
                                                         and seq_eq(take(ns, len(namespace)), namespace))))
    ensures("values", forall(lambda ns: implies(ns in result, result[ns] == Ent(self._context, ns, 'decls'))))
    local(decls="Map[Ns,DMap]")
    with loop("0"):
        invariant("keys", forall(lambda ns: (ns in decls) == (exists(lambda j: 0 <= j and j < _i0 and same(_s0[j], ns))
                                                             and len(namespace) >= 1 and len(namespace) <= len(ns)
                                                             and seq_eq(take(ns, len(namespace)), namespace))))
        invariant("values", forall(lambda ns: implies(ns in decls, decls[ns] == Ent(self._context, ns, 'decls'))))


@contract("src.ir.context.Context.get_parent")
def _(self: "Context", namespace: "Ns") -> "Opt[Decl]":
    ensures("short", implies(len(namespace) < 2, result is None))
    ensures("parent", implies(len(namespace) >= 2, result == ite(
        namespace[len(namespace) - 2] in Ent(self._context, take(namespace, len(namespace) - 2), 'decls'),
        Ent(self._context, take(namespace, len(namespace) - 2), 'decls')[namespace[len(namespace) - 2]], None)))


@contract("src.ir.context.Context.get_parent_class")
def _(self: "Context", namespace: "Ns") -> "Opt[Decl]":
    ensures("class-or-none", result is None or isinstance(result, ClassDeclaration))


# ---------------------------------------------------------------- module-level name lookup
bound(k="Int", k2="Int")


@ghost
def HasReal(c: "CMap", p: "Ns", nm: "Str") -> "Bool":
    """namespace p has a real (non-artificial) declaration under the name nm"""
    define(nm in Ent(c, p, 'decls') and Ent(c, p, 'decls')[nm] is not None)


@contract("src.ir.context.get_decl.stop_cond", pure=True)
def _(ns: "Ns", limit: "Opt[Ns]") -> "Int":
    ensures("def", (result != 0) == ite(limit is None, len(ns) != 0, utils.prefix_lst(limit, ns)))


@contract("src.ir.context.get_decl")
def _(context: "Context", namespace: "Ns", decl_name: "Str", limit: "Opt[Ns]") -> "Opt[Tuple[Any]]":
    """innermost enclosing namespace (not above `limit`) that has a real declaration under decl_name"""
    ensures("found", implies(result is not None, len(result) == 2
        and 1 <= len(cast(result[0], "Ns")) and len(cast(result[0], "Ns")) <= len(namespace)
        and seq_eq(cast(result[0], "Ns"), take(namespace, len(cast(result[0], "Ns"))))
        and HasReal(context._context, cast(result[0], "Ns"), decl_name)
        and same(result[1], Ent(context._context, cast(result[0], "Ns"), 'decls')[decl_name])
        and forall(lambda k2: implies(len(cast(result[0], "Ns")) < k2 and k2 <= len(namespace),
                                      not HasReal(context._context, take(namespace, k2), decl_name)))))
    ensures("none", implies(result is None, forall(lambda k: implies(
        1 <= k and k <= len(namespace) and forall(lambda k2: implies(
            k <= k2 and k2 <= len(namespace), limit is None or utils.prefix_lst(limit, take(namespace, k2)))),
        not HasReal(context._context, take(namespace, k), decl_name)))))
    with loop("0"):
        invariant("prefix", len(namespace) <= len(old(namespace)) and same(namespace, take(old(namespace), len(namespace))))
        invariant("skipped", forall(lambda k2: implies(
            len(namespace) < k2 and k2 <= len(old(namespace)),
            (limit is None or utils.prefix_lst(limit, take(old(namespace), k2)))
            and not HasReal(context._context, take(old(namespace), k2), decl_name))))


# ---------------------------------------------------------------- get_namespaces_decls
@ghost(least_fixpoint=True)
def NsReachReal(c: "CMap", p: "Ns", q: "Ns") -> "Bool":
    """as NsReach, but only through functions / classes whose entry is a real (non-None) declaration"""
    rule("base", forall(lambda c, p: NsReachReal(c, p, p)))
    rule("step", forall(lambda c, p, q, nm: implies(
        NsReachReal(c, p, q) and ((nm in Ent(c, q, 'funcs') and Ent(c, q, 'funcs')[nm] is not None) or
                                  (nm in Ent(c, q, 'classes') and Ent(c, q, 'classes')[nm] is not None)),
        NsReachReal(c, p, q + (nm,)))))


bound(t="Tuple[Any]")


@contract("src.ir.context.Context.get_namespaces_decls")
def _(self: "Context", namespace: "Ns", name: "Str", decl_type: "Str", glob: "Bool") -> "Set[Tuple[Any]]":
    """pairs (namespace + (name,), declaration) for every namespace reachable from the start namespace
    (the root when glob) that declares `name` under decl_type"""
    requires("nonempty-ns", len(namespace) >= 1)
    ensures("complete", forall(lambda q: implies(
        NsReachReal(self._context, ite(glob, take(old(namespace), 1), old(namespace)), q)
        and name in Ent(self._context, q, decl_type),
        (q + (name,), Ent(self._context, q, decl_type)[name]) in result)))
    ensures("sound", forall(lambda t: implies(t in result, exists(lambda q: (
        NsReachReal(self._context, ite(glob, take(old(namespace), 1), old(namespace)), q)
        and name in Ent(self._context, q, decl_type)
        and same(t, (q + (name,), Ent(self._context, q, decl_type)[name])))))))
    local(namespaces="Seq[Ns]", namespaces_decls="Set[Tuple[Any]]", decls="Opt[DMap]")
    ghost_local(processed="Set[Ns]")
    entry_hint(lemma("root", (namespace[0],) == take(namespace, 1)))
    with loop("0"):
        invariant("wl-reach", forall(lambda p: implies(p in namespaces, len(p) >= 1 and NsReachReal(
            self._context, ite(glob, take(old(namespace), 1), old(namespace)), p))))
        invariant("processed-reach", forall(lambda p: implies(p in processed, NsReachReal(
            self._context, ite(glob, take(old(namespace), 1), old(namespace)), p))))
        invariant("root", ite(glob, take(old(namespace), 1), old(namespace)) in processed
                  or ite(glob, take(old(namespace), 1), old(namespace)) in namespaces)
        invariant("closed", forall(lambda p, nm: implies(
            p in processed and ((nm in Ent(self._context, p, 'funcs') and Ent(self._context, p, 'funcs')[nm] is not None)
                                or (nm in Ent(self._context, p, 'classes') and Ent(self._context, p, 'classes')[nm] is not None)),
            (p + (nm,)) in processed or (p + (nm,)) in namespaces)))
        invariant("covered", forall(lambda p: implies(
            p in processed and name in Ent(self._context, p, decl_type),
            (p + (name,), Ent(self._context, p, decl_type)[name]) in namespaces_decls)))
        invariant("sound", forall(lambda t: implies(t in namespaces_decls, exists(lambda q: (
            NsReachReal(self._context, ite(glob, take(old(namespace), 1), old(namespace)), q)
            and name in Ent(self._context, q, decl_type)
            and same(t, (q + (name,), Ent(self._context, q, decl_type)[name])))))))
        end_hint(assign("processed", set_add(processed, namespace)))
        exit_hint(induct("NsReachReal", lambda c, p, q: implies(
            same(c, self._context) and same(p, ite(glob, take(old(namespace), 1), old(namespace))), q in processed)))
    with loop("0.0"):
        invariant("sound", forall(lambda t: implies(t in namespaces_decls, exists(lambda q: (
            (NsReachReal(self._context, ite(glob, take(old(namespace), 1), old(namespace)), q)
             and name in Ent(self._context, q, decl_type)
             and same(t, (q + (name,), Ent(self._context, q, decl_type)[name]))))))))
        invariant("covered", forall(lambda p: implies(
            p in processed and name in Ent(self._context, p, decl_type),
            (p + (name,), Ent(self._context, p, decl_type)[name]) in namespaces_decls)))
        invariant("this", forall(lambda j: implies(0 <= j and j < _i0_0 and _s0_0[j] == name,
                                                   (namespace + (name,), decls[name]) in namespaces_decls)))
