"""Contract of src.utils.path2set, which reads the --error-filter-patterns file (property C14: the filter patterns that
analyze_compiler_output deletes are exactly the lines of that file).  Parsed by pyvc, never executed."""
declare_class("TextFile")
fields("TextFile", path="Str")
bound(ln="Str", k="Int", fp="Str")


@ghost
def IsFile(fp: "Str") -> "Bool":
    """the path names an existing regular file (ghost view of the file system)"""
    pass


@ghost
def FileLines(fp: "Str") -> "Seq[Str]":
    """the lines of that file, as readlines() returns them"""
    pass


@external("os.path.isfile")
def _(path: "Str") -> "Bool":
    ensures("ghost", result == IsFile(path))


@external("builtins.open")
def _(path: "Str", mode: "Str") -> "TextFile":
    ensures("handle", same(result.path, path))


@external("<any>.readlines")
def _(self: "TextFile") -> "Seq[Str]":
    ensures("lines", seq_eq(result, FileLines(self.path)))


@contract("src.utils.path2set")
def _(path: "Str") -> "Set[Str]":
    """one pattern per line, surrounding white space removed; a missing file means no pattern"""
    ensures("no-file", implies(not IsFile(path), forall(lambda ln: ln not in result)))
    ensures("one-pattern-per-line", implies(IsFile(path), forall(lambda ln: (ln in result) == exists(
        lambda k: 0 <= k and k < len(FileLines(path)) and ln == FileLines(path)[k].strip()))))
