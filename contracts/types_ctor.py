"""Constructors of the type classes, copy.deepcopy and the class-defined predicates (shared by C07 and C17).
Parsed by pyvc, never executed.  Loaded together with types_sub.py."""
bound(o="Type")


# ---------------------------------------------------------------- trusted library contracts
@external("copy.deepcopy", allocates=True)
def _(x: "Type") -> "Type":
    """deep copy: a fresh object of the same class with equal scalar attributes and copied containers"""
    modifies(".*")
    ensures("new", newobj(result) and same_class(result, x))
    ensures("name", same(result.name, x.name))
    ensures("supertypes-len", len(result.supertypes) == len(x.supertypes))
    ensures("params-len", implies(isinstance(x, TypeConstructor),
                                  len(cast(result, "TypeConstructor").type_parameters)
                                  == len(cast(x, "TypeConstructor").type_parameters)))
    ensures("frame", forall(lambda o: implies(allocated(o), unchanged(o))))


# ---------------------------------------------------------------- constructors
@contract("src.ir.types.Type.__init__", frame="self")
def _(self: "Type", name: "Str") -> "None":
    modifies(".name", ".supertypes")
    ensures("fields", same(self.name, name) and len(self.supertypes) == 0)
    ensures("frame", forall(lambda o: implies(not same(o, self), unchanged(o))))


@contract("src.ir.types.SimpleClassifier._check_supertypes", trusted=True)
def _(self: "SimpleClassifier") -> "None":
    """consistency assertion over the supertype closure; reads only (may raise AssertionError)"""
    pass


@contract("src.ir.types.SimpleClassifier.__init__", frame="self")
def _(self: "SimpleClassifier", name: "Str", supertypes: "Opt[Seq[Type]]", check: "Bool") -> "None":
    modifies(".name", ".supertypes")
    ensures("name", same(self.name, name))
    ensures("supertypes", implies(supertypes is not None, same(self.supertypes, supertypes)))
    ensures("supertypes-default", implies(supertypes is None, len(self.supertypes) == 0))
    ensures("frame", forall(lambda o: implies(not same(o, self), unchanged(o))))


@contract("src.ir.types.TypeParameter.__init__", frame="self")
def _(self: "TypeParameter", name: "Str", variance: "Opt[Variance]", bound: "Opt[Type]") -> "None":
    modifies(".name", ".supertypes", ".variance", ".bound")
    ensures("fields", same(self.name, name) and same(self.bound, bound) and len(self.supertypes) == 0)
    ensures("variance", implies(variance is not None, same(self.variance, variance)))
    ensures("default-variance", implies(variance is None, same(self.variance, Invariant)))
    ensures("frame", forall(lambda o: implies(not same(o, self), unchanged(o))))


@contract("src.ir.types.WildCardType.__init__", frame="self")
def _(self: "WildCardType", bound: "Opt[Type]", variance: "Variance") -> "None":
    modifies(".name", ".supertypes", ".variance", ".bound")
    ensures("fields", same(self.bound, bound) and same(self.variance, variance) and len(self.supertypes) == 0)
    ensures("frame", forall(lambda o: implies(not same(o, self), unchanged(o))))


@contract("src.ir.types.TypeConstructor.__init__", frame="self")
def _(self: "TypeConstructor", name: "Str", type_parameters: "Seq[TypeParameter]", supertypes: "Opt[Seq[Type]]") -> "None":
    requires("nonempty", len(type_parameters) != 0)
    modifies(".name", ".supertypes", ".type_parameters")
    ensures("fields", same(self.name, name) and seq_eq(self.type_parameters, type_parameters))
    ensures("supertypes", implies(supertypes is not None, same(self.supertypes, supertypes)))
    ensures("frame", forall(lambda o: implies(not same(o, self), unchanged(o))))


@contract("src.ir.types.ParameterizedType.__init__", frame="self")
def _(self: "ParameterizedType", t_constructor: "TypeConstructor", type_args: "Seq[Type]", can_infer_type_args: "Bool") -> "None":
    requires("arity", len(t_constructor.type_parameters) == len(type_args))
    modifies(".*")
    ensures("constructor-copied", newobj(self.t_constructor) and same_class(self.t_constructor, t_constructor)
            and same(self.t_constructor.name, t_constructor.name)
            and len(self.t_constructor.type_parameters) == len(t_constructor.type_parameters)
            and len(self.t_constructor.supertypes) == len(t_constructor.supertypes))
    ensures("args", seq_eq(self.type_args, type_args))
    ensures("name", same(self.name, t_constructor.name))
    ensures("supertypes", seq_eq(self.supertypes, self.t_constructor.supertypes))
    ensures("frame", forall(lambda o: implies(allocated(o) and not same(o, self), unchanged(o))))


# ---------------------------------------------------------------- classification helpers (defined by the class)
@family("src.ir.types.Type.is_wildcard", pure=True)
def _(self: "Type") -> "Bool":
    ensures("def", result == isinstance(self, WildCardType))


@family("src.ir.types.Type.is_type_var", pure=True)
def _(self: "Type") -> "Bool":
    ensures("def", result == isinstance(self, TypeParameter))


@family("src.ir.types.Type.is_type_constructor", pure=True)
def _(self: "Type") -> "Bool":
    ensures("def", result == isinstance(self, TypeConstructor))


@external("src.ir.types.<cond>", pure=True)
def _(t: "Type") -> "Bool":
    """the predicate passed as `cond` (a lambda at the call sites): pure, arbitrary"""
    pass




# ---------------------------------------------------------------- "contains type variables"
@ghost
def HasTV(t: "Type") -> "Bool":
    """t is, or contains at any depth of its type arguments / projection bounds, an abstract type (a type variable or a
    bare type constructor).  A star projection contains none.  Recursive definition over the finite type structure."""
    define(ite(isinstance(t, WildCardType),
               cast(t, "WildCardType").bound is not None and HasTV(cast(t, "WildCardType").bound),
               ite(isinstance(t, ParameterizedType),
                   exists(lambda i: 0 <= i and i < len(cast(t, "ParameterizedType").type_args)
                          and HasTV(cast(t, "ParameterizedType").type_args[i])),
                   isinstance(t, AbstractType))))


@family("src.ir.types.Type.has_type_variables", pure=True)
def _(self: "Type") -> "Bool":
    ensures("def", result == HasTV(self))
