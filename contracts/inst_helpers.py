"""Contracts for the instantiation helpers (property C08): src/ir/type_utils.py.  Parsed by pyvc, never executed.
Loaded with types_sub.py, types_ctor.py and cfg_common.py (which holds the proved contract of _get_type_arg_variance).

Proved here (slice mode, site obligations in the real functions):
  * a use-site projection is created in exactly one place of _compute_type_variable_assignments and only with the variance
    that _get_type_arg_variance allowed (caller's choices, declared variance, switches, never on a parameter that a later
    parameter's bound mentions);
  * no type argument appended by _compute_type_variable_assignments is an uninstantiated generic class;
  * instantiate_type_constructor forwards `disable_variance` / PECS as variance choices that forbid every projection /
    the wrong projections, and returns type_constructor.new(...) (a ParameterizedType);
  * _get_available_types filters type constructors, abstract classes / interfaces, and boxes primitives.
"Each argument is within the substituted bound" depends on the subtype search and is bounded only.
"""
bound(pp="TypeParameter", k="Int")


@profile("helpers", slice=True, heap_closed=True,
         immutable_fields="dis,prob,use_site_variance,use_site_contravariance,bounded_type_parameters,parameterized_functions,value",
         immutable_globals="src.generators.config.cfg")
def _():
    modifies(".*")


@contract("src.ir.types.TypeConstructor.new")
def _(self: "TypeConstructor", type_args: "Any") -> "ParameterizedType":
    use_profile("helpers")
    ensures("is-instantiation", isinstance(result, ParameterizedType))


@contract("src.ir.type_utils._compute_type_variable_assignments")
def _(type_parameters: "Seq[TypeParameter]", types: "Any", type_var_map: "Any",
      variance_choices: "Opt[Map[TypeParameter,Tuple[Bool]]]", for_type_constructor: "Any") -> "Any":
    use_profile("helpers")
    requires("constants", VarianceConstants(0))
    local(variance="Variance", cls_type="Type", t_param="TypeParameter", t_arg="Type", i="Int")
    # the only place where a projection is created: allowed by the chooser's contract at that very moment
    site("WildCardType", "never-invariant", new.variance.value != 0)
    site("WildCardType", "switch-variance", not cfg.dis.use_site_variance)
    site("WildCardType", "switch-contravariance", implies(cfg.dis.use_site_contravariance, new.variance.value != 2))
    site("WildCardType", "choices-present", variance_choices is not None)
    site("WildCardType", "caller-allows", implies(t_param in variance_choices, (
        implies(new.variance.value == 1, variance_choices[t_param][0])
        and implies(new.variance.value == 2, variance_choices[t_param][1]))))
    site("WildCardType", "declared-variance", implies(t_param.variance.value == 1, new.variance.value != 2)
         and implies(t_param.variance.value == 2, new.variance.value != 1))
    # `i` must still be the position of the parameter being instantiated (the later parameters are type_parameters[i+1:])
    site("WildCardType", "index-is-current-parameter", 0 <= i and i < len(type_parameters)
         and same(type_parameters[i], t_param))
    site("WildCardType", "not-mentioned-in-later-bound", not exists(lambda k: (
        i + 1 <= k and k < len(type_parameters) and type_parameters[k].has_bound_of(t_param))))
    site("WildCardType", "projects-a-usable-type", not isinstance(new.bound, TypeConstructor))
    site_call("t_args.append", "no-uninstantiated-generic", not isinstance(arg0, TypeConstructor))


@contract("src.ir.type_utils.instantiate_type_constructor")
def _(type_constructor: "TypeConstructor", types: "Any", only_regular: "Any", type_var_map: "Any",
      variance_choices: "Opt[Map[TypeParameter,Tuple[Bool]]]", enable_pecs: "Bool",
      disable_variance_functions: "Bool", disable_variance: "Bool") -> "Tuple[Any]":
    use_profile("helpers")
    requires("valid", Valid(type_constructor))
    requires("nodup-params", nodup(type_constructor.type_parameters))
    ensures("pair", len(result) == 2 and isinstance(result[0], ParameterizedType))
    site_call("_compute_type_variable_assignments", "disable-variance", implies(
        disable_variance or (disable_variance_functions and type_constructor.name.startswith('Function')),
        kw_variance_choices is not None and forall(lambda k: implies(
            0 <= k and k < len(type_constructor.type_parameters),
            type_constructor.type_parameters[k] in cast(kw_variance_choices, "Map[TypeParameter,Tuple[Bool]]")
            and not cast(kw_variance_choices, "Map[TypeParameter,Tuple[Bool]]")[type_constructor.type_parameters[k]][0]
            and not cast(kw_variance_choices, "Map[TypeParameter,Tuple[Bool]]")[type_constructor.type_parameters[k]][1]))))
    site_call("_compute_type_variable_assignments", "parameters", same(arg0, type_constructor.type_parameters))


# ---------------------------------------------------------------- pool filtering
load_module("src.ir.ast")
fields("ClassDeclaration", class_type="Int")
fields("JavaBuiltin", primitive="Bool")
bound(j="Int")


@ghost
def Usable(x: "Any", no_primitives: "Bool") -> "Bool":
    """a pool entry that may be used as a type argument: not an uninstantiated generic class, not an abstract class or
    interface declaration, and (when requested) not a primitive"""
    define(not isinstance(x, TypeConstructor)
           and not (isinstance(x, ClassDeclaration) and cast(x, "ClassDeclaration").class_type != 0)
           and implies(no_primitives, not IsPrimitive(x)))


@ghost
def IsPrimitive(x: "Any") -> "Bool":
    """x is a primitive built-in (only classes that provide box_type can be)"""
    axiom("needs-box-type", forall(lambda x: implies(IsPrimitive(x), hasattr(x, 'box_type'))))
bound(x="Any")


@external("<any>.box_type")
def _(self: "Any") -> "Any":
    """boxing of a built-in: the result is never primitive, never a type constructor / declaration"""
    ensures("boxed", not IsPrimitive(result) and not isinstance(result, TypeConstructor)
            and not isinstance(result, ClassDeclaration) and not isinstance(result, TypeParameter)
            and not isinstance(result, ParameterizedType))


@contract("src.ir.type_utils._get_available_types")
def _(type_constructor: "Opt[TypeConstructor]", types: "Seq[Any]", only_regular: "Bool", primitives: "Bool") -> "Seq[Any]":
    ensures("unfiltered", implies(not only_regular, same(result, types)))
    ensures("usable", implies(only_regular, forall(lambda j: implies(0 <= j and j < len(result),
                                                                     Usable(result[j], not primitives)))))
    ensures("array-elements", implies(only_regular and type_constructor is not None and type_constructor.name == 'Array',
                                      forall(lambda j: implies(0 <= j and j < len(result), (
                                          not isinstance(result[j], TypeParameter)
                                          and not isinstance(result[j], ParameterizedType))))))
    local(available_types="Seq[Any]")
    with loop("0"):
        invariant("usable", forall(lambda j: implies(0 <= j and j < len(available_types),
                                                     Usable(available_types[j], not primitives))))
        invariant("array-elements", implies(type_constructor is not None and type_constructor.name == 'Array',
                                            forall(lambda j: implies(0 <= j and j < len(available_types), (
                                                not isinstance(available_types[j], TypeParameter)
                                                and not isinstance(available_types[j], ParameterizedType))))))


@contract("src.ir.type_utils.instantiate_parameterized_function")
def _(type_parameters: "Seq[TypeParameter]", types: "Any", only_regular: "Any", type_var_map: "Any") -> "Any":
    """a generic function is instantiated with plain types: no variance choices are handed on (so -- by the contract of
    _get_type_arg_variance, clause no-choices -- no use-site projection can appear among its type arguments), its own type
    parameters are the ones instantiated, and the pool is filtered for type arguments (no primitives)"""
    use_profile("helpers")
    site_call("_compute_type_variable_assignments", "no-projections-for-functions", kw_variance_choices is None)
    site_call("_compute_type_variable_assignments", "parameters", same(arg0, type_parameters))
    site_call("_compute_type_variable_assignments", "not-a-class-instantiation", kw_for_type_constructor is False)
    site_call("_get_available_types", "pool-without-primitives", arg0 is None and kw_primitives is False)
    site_return("type_var_map", "the-assignment-computed", True)
