"""Contracts for the subtype search (property C09): src/ir/type_utils.py _find_types / find_subtypes / find_supertypes /
to_type.  Parsed by pyvc, never executed.  Loaded with types_sub.py and types_ctor.py.

What is proved here (for every pool `types`, every query, every flag combination):
  * every element the search collects by walking the pool is a subtype of the query in the declarative relation `Sub`
    (C06's contract of the guarding `is_subtype` call), an element of the upward closure (supertype mode), the query itself
    (only when asked for), or the ONE element that `_construct_related_types` contributed (ghost `Related`: that function is
    randomised and heuristic; it stays outside the proof and is decided by the bounded part);
  * with `concrete_only` no result is an uninstantiated generic class, and every result is `to_type` of a collected element;
  * the query itself: collected when `include_self`; otherwise the walk never collects an element equal to the query and the
    identical object is discarded.
"""
bound(r="Type", q="Type", c="Any", gs="Bool", t="Type", cur="Type")


@ghost
def Related(r: "Type", q: "Type", gs: "Bool") -> "Bool":
    """r is what _construct_related_types(q, ..., get_subtypes=gs) returned (uninterpreted: bounded part)"""


@ghost
def InstOf(r: "Type", S: "Type") -> "Bool":
    """r is an instantiation produced by instantiate_type_constructor(S, ...) (uninterpreted; C08)"""


@ghost
def PoolValid(c: "Any") -> "Bool":
    """a pool entry: a well-formed type, or a class declaration (has get_type) whose type is well-formed"""
    axiom("plain", forall(lambda c: implies(PoolValid(c) and not hasattr(c, 'get_type'), typed(c, "Type") and Valid(cast(c, "Type")))))


@external("<any>.get_type")
def _(self: "Any") -> "Type":
    """ClassDeclaration.get_type(): the declared class as a type; well-formed when the pool entry is"""
    ensures("valid", implies(PoolValid(self), Valid(result)))


@external("src.ir.type_utils._construct_related_types")
def _(etype: "ParameterizedType", types: "Any", get_subtypes: "Bool", ignore_variance: "Any") -> "Type":
    """randomised construction of a related instantiation of the query's own class: NOT proved (bounded part of C09)"""
    ensures("related", Related(result, etype, get_subtypes) and Valid(result))


@external("src.ir.type_utils.instantiate_type_constructor")
def _(type_constructor: "TypeConstructor", types: "Any") -> "Tuple[Any]":
    """C08: returns (type_constructor.new(arguments), map); the first component is a ParameterizedType"""
    ensures("pair", len(result) == 2 and typed(result[0], "ParameterizedType") and InstOf(cast(result[0], "Type"), type_constructor))


@contract("src.ir.type_utils.to_type", pure=True)
def _(stype: "Type", types: "Any") -> "Type":
    """pure=True: inside the result comprehension of _find_types the call is a function symbol constrained by these
    postconditions only (the real function draws random type arguments; nothing proved uses that two calls agree)"""
    ensures("usable", not isinstance(result, TypeConstructor))
    ensures("identity", implies(not isinstance(stype, TypeConstructor), same(result, stype)))
    ensures("instantiation", implies(isinstance(stype, TypeConstructor), InstOf(result, stype)))


@ghost
def Collected(t: "Type", etype: "Type", get_subtypes: "Bool", include_self: "Bool") -> "Bool":
    """what the search may put into its working set for the query etype"""
    define((get_subtypes and Sub(t, etype) and not PyEq(etype, t))
           or (not get_subtypes and (same(t, etype) or SupStar(etype, t)))
           or (isinstance(etype, ParameterizedType) and Related(t, etype, get_subtypes))
           or (include_self and same(t, etype)))


@ghost
def Found(r: "Type", etype: "Type", get_subtypes: "Bool", include_self: "Bool", concrete_only: "Bool") -> "Bool":
    """r is handed out for the query etype: a collected element t (not the query itself unless asked for), or -- for a bare
    generic class t when concrete types are requested -- an instantiation of t"""
    define(exists(lambda t: (
        Collected(t, etype, get_subtypes, include_self) and (include_self or not same(t, etype))
        and ((not concrete_only and same(r, t))
             or (concrete_only and not isinstance(t, TypeConstructor) and same(r, t))
             or (concrete_only and isinstance(t, TypeConstructor) and InstOf(r, t))))))


@contract("src.ir.type_utils._find_types")
def _(etype: "Type", types: "Seq[Any]", get_subtypes: "Bool", include_self: "Bool", bound: "Opt[Type]",
      concrete_only: "Bool", ignore_variance: "Any") -> "Seq[Type]":
    requires("valid-query", Valid(etype))
    requires("valid-bound", implies(bound is not None, Valid(bound)))
    requires("valid-pool", forall(lambda j: implies(0 <= j and j < len(types), PoolValid(types[j]))))
    ensures("collected", forall(lambda j: implies(0 <= j and j < len(result),
                                                  Found(result[j], etype, get_subtypes, include_self, concrete_only))))
    ensures("usable", implies(concrete_only, forall(lambda j: implies(0 <= j and j < len(result),
                                                                      not isinstance(result[j], TypeConstructor)))))
    # "T itself is included exactly when asked for" (subtype search).  Membership is stated modulo == because a Python set
    # keeps the element that was there first when an equal one is added.
    ensures("self-included", implies(include_self and get_subtypes and not isinstance(etype, TypeConstructor),
                                     exists(lambda j: 0 <= j and j < len(result) and (
                                         same(result[j], etype) or PyEq(result[j], etype) or PyEq(etype, result[j])))))
    ensures("self-excluded", implies(not include_self and not concrete_only, forall(lambda j: implies(
        0 <= j and j < len(result), not same(result[j], etype)))))
    local(t_set="Set[Type]", selected_type="Type")
    with loop("0"):
        invariant("collected", forall(lambda t: implies(smem(t_set, t), Sub(t, etype) and not PyEq(etype, t))))


# ---------------------------------------------------------------- the two public wrappers
@contract("src.ir.type_utils.find_subtypes")
def _(etype: "Type", types: "Seq[Any]", include_self: "Bool", bound: "Opt[Type]", concrete_only: "Bool",
      ignore_variance: "Any") -> "Seq[Type]":
    requires("valid-query", Valid(etype))
    requires("valid-pool", forall(lambda j: implies(0 <= j and j < len(types), PoolValid(types[j]))))
    # C09, first sentence: every returned type is (an instantiation of) a subtype of T in the declarative relation -- or the
    # one element contributed by _construct_related_types (bounded part) -- and T itself exactly when asked for
    ensures("subtypes-only", forall(lambda j: implies(0 <= j and j < len(result),
                                                      Found(result[j], etype, True, include_self, concrete_only))))
    ensures("usable", implies(concrete_only, forall(lambda j: implies(0 <= j and j < len(result),
                                                                      not isinstance(result[j], TypeConstructor)))))
    ensures("self-included", implies(include_self and not isinstance(etype, TypeConstructor),
                                     exists(lambda j: 0 <= j and j < len(result) and (
                                         same(result[j], etype) or PyEq(result[j], etype) or PyEq(etype, result[j])))))
    ensures("self-excluded", implies(not include_self and not concrete_only, forall(lambda j: implies(
        0 <= j and j < len(result), not same(result[j], etype)))))


@contract("src.ir.type_utils.find_supertypes")
def _(etype: "Type", types: "Seq[Any]", include_self: "Bool", bound: "Opt[Type]", concrete_only: "Bool") -> "Seq[Type]":
    requires("valid-query", Valid(etype))
    requires("valid-bound", implies(bound is not None, Valid(bound)))
    requires("valid-pool", forall(lambda j: implies(0 <= j and j < len(types), PoolValid(types[j]))))
    ensures("supertypes-only", forall(lambda j: implies(0 <= j and j < len(result),
                                                        Found(result[j], etype, False, include_self, concrete_only))))
    ensures("usable", implies(concrete_only, forall(lambda j: implies(0 <= j and j < len(result),
                                                                      not isinstance(result[j], TypeConstructor)))))


# ---------------------------------------------------------------- the irrelevant-type search (slice mode)
@ghost
def Target(cur: "Type", q: "Type") -> "Bool":
    """the type the two searches are run for: the query itself, or -- for a type variable -- its bound; never a variable"""
    define(not isinstance(cur, TypeParameter)
           and (same(cur, q) or (isinstance(q, TypeParameter) and same(cur, cast(q, "TypeParameter").bound))))



@profile("search", slice=True, heap_closed=True)
def _():
    modifies(".*")


@external("<any>.get_any_type", pure=True)
def _(self: "Any") -> "Type":
    """BuiltinFactory.get_any_type(): the top type of the language (a function of the factory)"""
    ensures("valid", Valid(result))


@contract("src.ir.type_utils.find_irrelevant_type._cls2type", pure=True)
def _(cls: "Any") -> "Type":
    """nested helper: a class declaration of the pool as a type"""
    requires("pool-entry", PoolValid(cls))
    ensures("valid", Valid(result) and PoolValid(result))
    ensures("types-unchanged", implies(not hasattr(cls, 'get_type'), same(result, cls)))


@contract("src.ir.type_utils.find_irrelevant_type")
def _(etype: "Type", types: "Seq[Any]", factory: "Any") -> "Opt[Type]":
    use_profile("search")
    requires("valid-query", Valid(etype))
    requires("valid-pool", forall(lambda j: implies(0 <= j and j < len(types), PoolValid(types[j]))))
    local(t="Type", ir_type="Opt[Type]", supertypes="Seq[Type]", subtypes="Seq[Type]", relevant_types="Seq[Type]",
          available_types="Seq[Type]")
    # C09, last clause: nothing for the top type
    ensures("nothing-for-the-top-type", implies(PyEq(old(etype), old(factory).get_any_type()), result is None))
    # ---- every return statement of the function (an unlisted form of return is a failed obligation)
    site_return("None", "nothing", True)
    # an unbounded type variable (or one bounded by the top type): any regular type of the pool
    site_return("choose_type(types, only_regular=True)", "only-for-an-unbounded-type-variable",
                isinstance(etype, TypeParameter) and same(etype, old(etype))
                and (cast(etype, "TypeParameter").bound is None
                     or PyEq(cast(etype, "TypeParameter").bound, old(factory).get_any_type())))
    # a type variable bounded by a type variable: the search continues with the bound
    site_return("find_irrelevant_type(etype, types, factory)", "continues-with-the-bound",
                isinstance(old(etype), TypeParameter) and same(etype, cast(old(etype), "TypeParameter").bound))
    # a generic class of the pool, re-instantiated: handed out only if the type system relates it to the target in
    # neither direction
    site_return("ir_type", "re-instantiation-is-checked-both-ways",
                ir_type is None or (not ir_type.is_subtype(etype) and not etype.is_subtype(ir_type)))
    site_return("ir_type", "target", Target(etype, old(etype)))
    # a pool member: (modulo ==) in neither complete search result for the target, not the top type, usable as it is
    site_return("t", "not-among-the-relatives",
                not (t in supertypes) and not (t in subtypes)
                and not PyEq(t, old(factory).get_any_type()) and not isinstance(t, TypeConstructor))
    site_return("t", "target", Target(etype, old(etype)))
    # `supertypes` / `subtypes` are the complete results of the two searches for the target over the whole pool, the target
    # itself included, concrete types only (that each local is bound once, by that call, and never changed: syntactic
    # obligation binding[...] generated by props/C09.py)
    site_call("find_supertypes", "whole-upward-search",
              same(arg0, etype) and same(arg1, types) and kw_include_self is True and kw_concrete_only is True)
    site_call("find_subtypes", "whole-downward-search",
              same(arg0, etype) and same(arg1, types) and kw_include_self is True and kw_concrete_only is True)
    site_return("t", "from-the-pool", t in types)
