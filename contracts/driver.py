"""Contracts for the driver in hephaestus.py (property C15), sequential mode.  Parsed by pyvc, never executed.

The module parses the command line at import; pyvc only reads its source.  cli_args is a symbolic object
(the "configurations" quantifier).  The file system is the ghost set __fs of existing paths; the result of the
most recent compiler-output analysis is recorded in the ghost globals __failed / __crash.
"""
declare_class("Args")
fields("Args", test_directory="Str", language="Str", debug="Bool", rerun="Bool", error_filter_patterns="Opt[Str]",
       transformations="Int", seconds="Opt[Int]", iterations="Opt[Int]", batch="Int", stop_cond="Str", dry_run="Bool",
       bugs="Str", name="Str")
global_var("hephaestus.cli_args", "Args")

dict_record("Stats")                        # per-program stats dictionary (mutable, shared by reference)
fields("Stats", error="Opt[Str]", programs="Map[Str,Bool]")
declare_class("ProgramRes")
fields("ProgramRes", failed="Bool", stats="Stats")
declare_class("Compiler")
fields("Compiler", crash_msg="Opt[Str]")
alias("FailedMap", "Map[Str,Seq[Str]]")
alias("Oracles", "Map[Int,ProgramRes]")
alias("Output", "Map[Int,Stats]")

global_var("hephaestus.__fs", "Set[Str]")              # ghost: paths that exist
global_var("hephaestus.__failed", "Opt[FailedMap]")    # ghost: `failed` of the last analyze_compiler_output
global_var("hephaestus.__crash", "Opt[Str]")           # ghost: crash message of the last analysis
global_var("hephaestus.STOP_COND", "Bool")

bound(pid="Int", pid2="Int", f="Str", x="Str", td="Str", progs="Map[Str,Bool]", fm="FailedMap", k="Int", n="Int", j="Int")


@ghost(typed_result=True)
def Saved(td: "Str", pid: "Int") -> "Str":
    """os.path.join(test_directory, str(pid)): where the test case of a fault is saved"""
    axiom("inj", forall(lambda td, pid, pid2: implies(same(Saved(td, pid), Saved(td, pid2)), pid == pid2)))


@ghost(typed_result=True)
def Tmp(td: "Str", pid: "Int") -> "Str":
    """os.path.join(test_directory, 'tmp', str(pid)): per-program scratch directory"""
    axiom("inj", forall(lambda td, pid, pid2: implies(same(Tmp(td, pid), Tmp(td, pid2)), pid == pid2)))
    axiom("disjoint", forall(lambda td, pid, pid2: not same(Tmp(td, pid), Saved(td, pid2))))


@ghost
def PassAt(progs: "Map[Str,Bool]", fm: "FailedMap", k: "Int") -> "Bool":
    """the k-th program of the dict was expected to compile but the compiler reported an error for its file"""
    define(progs[keys(progs)[k]] and keys(progs)[k] in fm)


@ghost
def FailAt(progs: "Map[Str,Bool]", fm: "FailedMap", k: "Int") -> "Bool":
    """the k-th program was expected to be rejected but the compiler reported no error for its file"""
    define(not progs[keys(progs)[k]] and keys(progs)[k] not in fm)


@ghost
def PassUpTo(progs: "Map[Str,Bool]", fm: "FailedMap", n: "Int") -> "Bool":
    define(exists(lambda k: 0 <= k and k < n and PassAt(progs, fm, k)))


@ghost
def FailUpTo(progs: "Map[Str,Bool]", fm: "FailedMap", n: "Int") -> "Bool":
    define(exists(lambda k: 0 <= k and k < n and FailAt(progs, fm, k)))


@ghost
def SavedOf(td: "Str", x: "Str") -> "Int":
    """inverse of Saved (its existence is the injectivity assumption)"""
    axiom("inv", forall(lambda td, pid: SavedOf(td, Saved(td, pid)) == pid, triggers=[Saved(td, pid)]))


@ghost
def TmpOf(td: "Str", x: "Str") -> "Int":
    axiom("inv", forall(lambda td, pid: TmpOf(td, Tmp(td, pid)) == pid, triggers=[Tmp(td, pid)]))


@ghost
def InBatch(td: "Str", x: "Str", oracles: "Oracles") -> "Bool":
    """x is the saved-test-case directory or the scratch directory of a program of the batch"""
    define((same(x, Saved(td, SavedOf(td, x))) and SavedOf(td, x) in oracles)
           or (same(x, Tmp(td, TmpOf(td, x))) and TmpOf(td, x) in oracles))


@ghost
def Mismatch(progs: "Map[Str,Bool]", fm: "FailedMap") -> "Bool":
    """some program expected to compile has a compiler error, or some program expected to be rejected has none"""
    define(PassUpTo(progs, fm, len(progs)) or FailUpTo(progs, fm, len(progs)))


@ghost
def NeedsMsg(progs: "Map[Str,Bool]") -> "Bool":
    """the program dict contains an ill-typed (expected to be rejected) program"""
    define(exists(lambda k: 0 <= k and k < len(progs) and not progs[keys(progs)[k]]))


# ---------------------------------------------------------------- trusted externals
@external("os.path.join/2")
def _(a: "Str", b: "Str") -> "Str":
    ensures("saved", forall(lambda pid: implies(same(b, str(pid)), same(result, Saved(a, pid)))))


@external("os.path.join/3")
def _(a: "Str", b: "Str", c: "Str") -> "Str":
    ensures("tmp", forall(lambda pid: implies(b == 'tmp' and same(c, str(pid)), same(result, Tmp(a, pid)))))


@external("shutil.copytree")
def _(src: "Str", dst: "Str") -> "None":
    requires("src-exists", src in __fs)
    requires("dst-absent", dst not in __fs)
    modifies("__fs")
    ensures("added", forall(lambda x: (x in __fs) == (x in old(__fs) or x == dst)))


@external("shutil.rmtree")
def _(path: "Str") -> "None":
    requires("exists", path in __fs)
    modifies("__fs")
    ensures("removed", forall(lambda x: (x in __fs) == (x in old(__fs) and x != path)))


@external("time.time")
def _() -> "Int":
    pass


@external("hephaestus.run_command")
def _(arguments: "Seq[Str]", get_stdout: "Bool") -> "Tuple[Any]":
    ensures("pair", len(result) == 2 and typed(result[1], "Str"))


@external("src.utils.path2set")
def _(path: "Opt[Str]") -> "Set[Str]":
    pass


@external("hephaestus.COMPILERS[]")
def _(key: "Str", input_name: "Str", filter_patterns: "Set[Str]") -> "Compiler":
    pass


@family("Compiler.get_compiler_cmd")
def _(self: "Compiler") -> "Seq[Str]":
    pass


@family("Compiler.analyze_compiler_output")
def _(self: "Compiler", output: "Str") -> "Tuple[Any]":
    """assumed here (it is C14's subject): either a crash is recorded, or a map file -> messages is returned"""
    modifies(".crash_msg", "__failed", "__crash")
    ensures("pair", len(result) == 2)
    ensures("ghost-failed", same(__failed, cast(result[0], "Opt[FailedMap]")))
    ensures("ghost-crash", same(__crash, self.crash_msg))
    ensures("failed-map", implies(not truthy(self.crash_msg), __failed is not None and typed(result[0], "FailedMap")))


@external("hephaestus._report_failed")
def _(pid: "Int", tid: "Int", compiler: "Compiler", oracle: "Bool") -> "None":
    """--rerun debugging aid; assumed not to touch the tracked state"""
    pass


@external("sys.exit", noreturn=True)
def _(code: "Any") -> "None":
    pass


# ---------------------------------------------------------------- check_oracle
@contract("hephaestus.check_oracle")
def _(dirname: "Str", oracles: "Oracles") -> "Tuple[Any]":
    requires("dir-exists", dirname in __fs)
    requires("dir-separate", forall(lambda pid: not same(dirname, Saved(cli_args.test_directory, pid))
                                    and not same(dirname, Tmp(cli_args.test_directory, pid))))
    requires("tmp-exists", forall(lambda pid: implies(pid in oracles and not oracles[pid].failed,
                                                      Tmp(cli_args.test_directory, pid) in __fs)))
    requires("not-saved-yet", forall(lambda pid: implies(pid in oracles, Saved(cli_args.test_directory, pid) not in __fs)))
    requires("stats-distinct", forall(lambda pid, pid2: implies(pid in oracles and pid2 in oracles and pid != pid2,
                                                                oracles[pid].stats != oracles[pid2].stats)))
    requires("ill-typed-has-message", forall(lambda pid: implies(
        pid in oracles and not oracles[pid].failed and NeedsMsg(oracles[pid].stats.programs),
        oracles[pid].stats.error is not None)))
    modifies("__fs", "__failed", "__crash", ".crash_msg", ".error")
    ensures("pair", len(result) == 2 and typed(result[0], "Output"))
    # --- which programs are reported
    ensures("reported-only-batch", forall(lambda pid: implies(pid in cast(result[0], "Output"), pid in oracles)))
    ensures("crash-all", implies(truthy(__crash), forall(lambda pid: implies(pid in oracles, pid in cast(result[0], "Output")))))
    ensures("iff", implies(not truthy(__crash), __failed is not None and forall(lambda pid: implies(
        pid in oracles, (pid in cast(result[0], "Output")) == (
            oracles[pid].failed or Mismatch(oracles[pid].stats.programs, __failed))))))
    ensures("stats-object", forall(lambda pid: implies(pid in cast(result[0], "Output"),
                                                       cast(result[0], "Output")[pid] == oracles[pid].stats)))
    # --- messages
    ensures("msg-crash", implies(truthy(__crash), forall(lambda pid: implies(
        pid in oracles and not oracles[pid].failed, oracles[pid].stats.error == __crash))))
    ensures("msg-should-not-compile", implies(not truthy(__crash), forall(lambda pid: implies(
        pid in oracles and not oracles[pid].failed
        and FailUpTo(oracles[pid].stats.programs, __failed, len(oracles[pid].stats.programs))
        and not PassUpTo(oracles[pid].stats.programs, __failed, len(oracles[pid].stats.programs)),
        oracles[pid].stats.error.startswith('SHOULD NOT BE COMPILED: ')))))
    ensures("msg-compile-error", implies(not truthy(__crash), forall(lambda pid: implies(
        pid in oracles and not oracles[pid].failed
        and PassUpTo(oracles[pid].stats.programs, __failed, len(oracles[pid].stats.programs))
        and not FailUpTo(oracles[pid].stats.programs, __failed, len(oracles[pid].stats.programs)),
        exists(lambda k: 0 <= k and k < len(oracles[pid].stats.programs)
               and PassAt(oracles[pid].stats.programs, __failed, k)
               and oracles[pid].stats.error == '\n'.join(__failed[keys(oracles[pid].stats.programs)[k]]))))))
    ensures("msg-untouched", forall(lambda pid: implies(
        pid in oracles and pid not in cast(result[0], "Output"), unchanged(oracles[pid].stats, 'error'))))
    # --- files
    ensures("saved", forall(lambda pid: implies(pid in cast(result[0], "Output") and not oracles[pid].failed,
                                                Saved(cli_args.test_directory, pid) in __fs)))
    ensures("tmp-removed", implies(not truthy(__crash), forall(lambda pid: implies(
        pid in oracles and not oracles[pid].failed, Tmp(cli_args.test_directory, pid) not in __fs))))
    ensures("batch-dir-removed", dirname not in __fs)
    ensures("nothing-else", forall(lambda x: implies(
        x != dirname and not InBatch(cli_args.test_directory, x, oracles), (x in __fs) == (x in old(__fs)))))
    local(failed="Opt[FailedMap]", err="Str", output="Output")
    ghost_local(done="Set[Int]")
    # ---------------- crash branch: for pid, proc_res in oracles.items()
    with loop("0"):
        invariant("done-prefix", forall(lambda j: implies(0 <= j and j < len(_s0), (_s0[j] in done) == (j < _i0))))
        invariant("done-sub", forall(lambda pid: implies(pid in done, pid in oracles)))
        invariant("crash-fixed", same(compiler.crash_msg, __crash) and truthy(__crash))
        invariant("out-dom", forall(lambda pid: (pid in output) == (pid in done)))
        invariant("out-val", forall(lambda pid: implies(pid in output, output[pid] == oracles[pid].stats)))
        invariant("msg", forall(lambda pid: implies(pid in done and not oracles[pid].failed,
                                                    oracles[pid].stats.error == __crash)))
        invariant("msg-rest", forall(lambda pid: implies(pid in oracles and not (pid in done and not oracles[pid].failed),
                                                         unchanged(oracles[pid].stats, 'error'))))
        invariant("fs-saved", forall(lambda pid: implies(pid in oracles, (Saved(cli_args.test_directory, pid) in __fs) == (
            pid in done and not oracles[pid].failed))))
        invariant("fs-tmp", forall(lambda pid: implies(pid in oracles and not oracles[pid].failed,
                                                       Tmp(cli_args.test_directory, pid) in __fs)))
        invariant("fs-dir", dirname not in __fs)
        invariant("fs-else", forall(lambda x: implies(
            x != dirname and not InBatch(cli_args.test_directory, x, oracles), (x in __fs) == (x in old(__fs)))))
        end_hint(assign("done", set_add(done, pid)))
    # ---------------- normal branch: for pid, proc_res in oracles.items()
    with loop("1"):
        invariant("done-prefix", forall(lambda j: implies(0 <= j and j < len(_s1), (_s1[j] in done) == (j < _i1))))
        invariant("done-sub", forall(lambda pid: implies(pid in done, pid in oracles)))
        invariant("nocrash", not truthy(__crash) and same(failed, __failed) and __failed is not None)
        invariant("out-dom", forall(lambda pid: (pid in output) == (
            pid in done and (oracles[pid].failed or Mismatch(oracles[pid].stats.programs, __failed)))))
        invariant("out-val", forall(lambda pid: implies(pid in output, output[pid] == oracles[pid].stats)))
        invariant("msg-snc", forall(lambda pid: implies(
            pid in done and not oracles[pid].failed
            and FailUpTo(oracles[pid].stats.programs, __failed, len(oracles[pid].stats.programs))
            and not PassUpTo(oracles[pid].stats.programs, __failed, len(oracles[pid].stats.programs)),
            oracles[pid].stats.error.startswith('SHOULD NOT BE COMPILED: '))))
        invariant("msg-ce", forall(lambda pid: implies(
            pid in done and not oracles[pid].failed
            and PassUpTo(oracles[pid].stats.programs, __failed, len(oracles[pid].stats.programs))
            and not FailUpTo(oracles[pid].stats.programs, __failed, len(oracles[pid].stats.programs)),
            exists(lambda k: 0 <= k and k < len(oracles[pid].stats.programs)
                   and PassAt(oracles[pid].stats.programs, __failed, k)
                   and oracles[pid].stats.error == '\n'.join(__failed[keys(oracles[pid].stats.programs)[k]])))))
        invariant("msg-rest", forall(lambda pid: implies(pid in oracles and (pid not in done or pid not in output
                                                                             or oracles[pid].failed),
                                                         unchanged(oracles[pid].stats, 'error'))))
        invariant("fs-saved", forall(lambda pid: implies(pid in oracles, (Saved(cli_args.test_directory, pid) in __fs) == (
            pid in done and pid in output and not oracles[pid].failed))))
        invariant("fs-tmp", forall(lambda pid: implies(pid in oracles and not oracles[pid].failed,
                                                       (Tmp(cli_args.test_directory, pid) in __fs) == (pid not in done))))
        invariant("fs-dir", dirname in __fs)
        invariant("fs-else", forall(lambda x: implies(
            x != dirname and not InBatch(cli_args.test_directory, x, oracles), (x in __fs) == (x in old(__fs)))))
        end_hint(assign("done", set_add(done, pid)))
    # ---------------- for program, oracle in proc_res.stats['programs'].items()   (pid is the current, non-failed program)
    with loop("1.0"):
        invariant("cur", pid in oracles and pid not in done and not oracles[pid].failed and proc_res == oracles[pid])
        invariant("out-cur", (pid in output) == (PassUpTo(proc_res.stats.programs, __failed, _i1_0)
                                                 or FailUpTo(proc_res.stats.programs, __failed, _i1_0)))
        invariant("out-others", forall(lambda pid2: implies(pid2 != pid, (pid2 in output) == (
            pid2 in done and (oracles[pid2].failed or Mismatch(oracles[pid2].stats.programs, __failed))))))
        invariant("out-val", forall(lambda pid2: implies(pid2 in output, output[pid2] == oracles[pid2].stats)))
        invariant("msg-snc-cur", implies(
            FailUpTo(proc_res.stats.programs, __failed, _i1_0) and not PassUpTo(proc_res.stats.programs, __failed, _i1_0),
            proc_res.stats.error.startswith('SHOULD NOT BE COMPILED: ')))
        invariant("msg-ce-cur", implies(
            PassUpTo(proc_res.stats.programs, __failed, _i1_0) and not FailUpTo(proc_res.stats.programs, __failed, _i1_0),
            exists(lambda k: 0 <= k and k < _i1_0 and PassAt(proc_res.stats.programs, __failed, k)
                   and proc_res.stats.error == '\n'.join(__failed[keys(proc_res.stats.programs)[k]]))))
        invariant("msg-none-cur", implies(
            not PassUpTo(proc_res.stats.programs, __failed, _i1_0) and not FailUpTo(proc_res.stats.programs, __failed, _i1_0),
            unchanged(proc_res.stats, 'error')))
        invariant("msg-snc", forall(lambda pid2: implies(
            pid2 in done and not oracles[pid2].failed
            and FailUpTo(oracles[pid2].stats.programs, __failed, len(oracles[pid2].stats.programs))
            and not PassUpTo(oracles[pid2].stats.programs, __failed, len(oracles[pid2].stats.programs)),
            oracles[pid2].stats.error.startswith('SHOULD NOT BE COMPILED: '))))
        invariant("msg-ce", forall(lambda pid2: implies(
            pid2 in done and not oracles[pid2].failed
            and PassUpTo(oracles[pid2].stats.programs, __failed, len(oracles[pid2].stats.programs))
            and not FailUpTo(oracles[pid2].stats.programs, __failed, len(oracles[pid2].stats.programs)),
            exists(lambda k: 0 <= k and k < len(oracles[pid2].stats.programs)
                   and PassAt(oracles[pid2].stats.programs, __failed, k)
                   and oracles[pid2].stats.error == '\n'.join(__failed[keys(oracles[pid2].stats.programs)[k]])))))
        invariant("msg-rest", forall(lambda pid2: implies(
            pid2 in oracles and pid2 != pid and (pid2 not in done or pid2 not in output or oracles[pid2].failed),
            unchanged(oracles[pid2].stats, 'error'))))
        invariant("fs-saved-cur", (Saved(cli_args.test_directory, pid) in __fs) == (pid in output))
        invariant("saved-flag", saved == (pid in output))
        invariant("msg-present-cur", implies(NeedsMsg(proc_res.stats.programs), proc_res.stats.error is not None))
        body_hint(use(PassAt(proc_res.stats.programs, __failed, _i1_0), FailAt(proc_res.stats.programs, __failed, _i1_0)))
        invariant("fs-saved", forall(lambda pid2: implies(pid2 in oracles and pid2 != pid, (
            Saved(cli_args.test_directory, pid2) in __fs) == (pid2 in done and pid2 in output and not oracles[pid2].failed))))
        invariant("fs-tmp", forall(lambda pid2: implies(pid2 in oracles and not oracles[pid2].failed,
                                                        (Tmp(cli_args.test_directory, pid2) in __fs) == (pid2 not in done))))
        invariant("fs-dir", dirname in __fs)
        invariant("fs-else", forall(lambda x: implies(
            x != dirname and not InBatch(cli_args.test_directory, x, oracles), (x in __fs) == (x in old(__fs)))))


# ================================================================ statistics and the batch loop
dict_record("StatsG")
dict_record("Totals")
fields("StatsG", totals="Totals", time="Int", compilation_time="Int", faults="Output")
fields("Totals", passed="Int", failed="Int")
global_var("hephaestus.STATS", "StatsG")
global_var("hephaestus.__faults_file", "Output")     # ghost: content of faults.json
global_var("hephaestus.__processed", "Int")          # ghost: number of programs handed to process_program


@external("hephaestus.print_msg")
def _() -> "None":
    pass


@external("hephaestus.save_stats")
def _() -> "None":
    modifies("__faults_file")
    ensures("faults-file", same(__faults_file, STATS['faults']))


@contract("hephaestus.update_stats")
def _(res: "Tuple[Any]", batch: "Int", batch_time: "Int") -> "None":
    requires("pair", len(res) == 2 and typed(res[0], "Output"))
    modifies(".Totals.failed", ".passed", ".time", ".compilation_time", ".faults", "__faults_file")
    ensures("failed", STATS['totals']['failed'] == old(STATS['totals']['failed']) + len(cast(old(res)[0], "Output")))
    ensures("passed", STATS['totals']['passed'] == old(STATS['totals']['passed']) + batch - len(cast(old(res)[0], "Output")))
    ensures("sum", STATS['totals']['passed'] + STATS['totals']['failed']
            == old(STATS['totals']['passed'] + STATS['totals']['failed']) + batch)
    ensures("faults", same(STATS['faults'], mupdate(old(STATS['faults']), cast(old(res)[0], "Output"))))
    ensures("faults-file", same(__faults_file, STATS['faults']))
    local(res="Output", compilation_time="Int")


@contract("hephaestus.get_batches", pure=True)
def _(programs: "Int") -> "Int":
    requires("iterations-set", cli_args.stop_cond == 'timeout' or cli_args.iterations is not None)
    ensures("def", result == ite(cli_args.stop_cond == 'timeout', cli_args.batch,
                                 min(cli_args.batch, cast(cli_args.iterations, "Int") - programs)))


@contract("hephaestus.stop_condition")
def _(iteration: "Int", time_passed: "Int") -> "Bool":
    ensures("def", result == ite(STOP_COND, False, ite(truthy(cli_args.seconds), time_passed < cast(cli_args.seconds, "Int"),
                                                       ite(truthy(cli_args.iterations),
                                                           iteration < cast(cli_args.iterations, "Int") + 1, True))))


# ---------------------------------------------------------------- the batch loop
alias("ResList", "Seq[ProgramRes]")
bound(i="Int", r="ProgramRes")


@external("hephaestus.logging")
def _() -> "None":
    pass


@external("src.utils.random.reset_word_pool")
def _() -> "None":
    pass


@external("src.utils.random.word")
def _() -> "Str":
    pass


@external("tempfile.mkdtemp")
def _() -> "Str":
    modifies("__fs")
    ensures("created", result not in old(__fs) and forall(lambda x: (x in __fs) == (x in old(__fs) or x == result)))
    ensures("separate", forall(lambda pid: not same(result, Saved(cli_args.test_directory, pid))
                               and not same(result, Tmp(cli_args.test_directory, pid))))


@external("functools.reduce")
def _(fn: "Any", seq: "ResList", init: "Int") -> "Int":
    pass


@external("hephaestus.run.process_program", allocates=True)
def _(pid: "Int", dirname: "Str", packages: "Tuple[Str]") -> "ProgramRes":
    """= gen_program: generator, transformations and translators are outside this property; assumed behaviour"""
    modifies("__fs", "__processed")
    ensures("counted", __processed == old(__processed) + 1)
    ensures("new", newobj(result) and newobj(result.stats))
    ensures("tmp", implies(not result.failed, Tmp(cli_args.test_directory, pid) in __fs))
    ensures("fs", forall(lambda x: implies(x != Tmp(cli_args.test_directory, pid), (x in __fs) == (x in old(__fs)))))
    ensures("msg", implies(not result.failed and NeedsMsg(result.stats.programs), result.stats.error is not None))


@contract("hephaestus.run.process_res")
def _(start_index: "Int", res: "ResList", testdir: "Str", batch: "Int") -> "None":
    requires("len", len(res) == batch)
    requires("dir-exists", testdir in __fs)
    requires("dir-separate", forall(lambda pid: not same(testdir, Saved(cli_args.test_directory, pid))
                                    and not same(testdir, Tmp(cli_args.test_directory, pid))))
    requires("tmp-exists", forall(lambda pid: implies(start_index <= pid and pid < start_index + batch
                                                      and not res[pid - start_index].failed,
                                                      Tmp(cli_args.test_directory, pid) in __fs)))
    requires("not-saved-yet", forall(lambda pid: implies(start_index <= pid,
                                                         Saved(cli_args.test_directory, pid) not in __fs)))
    requires("stats-distinct", forall(lambda i, j: implies(0 <= i and i < j and j < batch, res[i].stats != res[j].stats)))
    requires("msg", forall(lambda i: implies(0 <= i and i < batch and not res[i].failed and NeedsMsg(res[i].stats.programs),
                                             res[i].stats.error is not None)))
    requires("faults-below", forall(lambda pid: implies(pid in STATS['faults'], pid < start_index)))
    modifies("__fs", "__failed", "__crash", ".crash_msg", ".error", ".Totals.failed", ".passed", ".time", ".compilation_time",
             ".faults", "__faults_file")
    ensures("sum", STATS['totals']['passed'] + STATS['totals']['failed']
            == old(STATS['totals']['passed'] + STATS['totals']['failed']) + batch)
    ensures("faults-range", forall(lambda pid: implies(pid in STATS['faults'], pid in old(STATS['faults'])
                                                       or (start_index <= pid and pid < start_index + batch))))
    ensures("faults-kept", forall(lambda pid: implies(pid in old(STATS['faults']), pid in STATS['faults'])))
    ensures("faults-exact", implies(not cli_args.dry_run, forall(lambda i: implies(0 <= i and i < batch, (
        (start_index + i) in STATS['faults']) == (truthy(__crash) or old(res)[i].failed or (
            __failed is not None and Mismatch(old(res)[i].stats.programs, __failed)))))))
    ensures("faults-file", same(__faults_file, STATS['faults']))
    ensures("not-saved", forall(lambda pid: implies(pid >= start_index + batch,
                                                    Saved(cli_args.test_directory, pid) not in __fs)))
    local(oracles="Oracles")
    with loop("0"):
        invariant("keys", forall(lambda pid: (pid in oracles) == (start_index <= pid and pid < start_index + _i0)))
        invariant("vals", forall(lambda pid: implies(pid in oracles, oracles[pid] == res[pid - start_index])))


@contract("hephaestus._run")
def _(process_program: "Any", process_res: "Any") -> "None":
    callable(process_program="hephaestus.run.process_program", process_res="hephaestus.run.process_res")
    requires("valid-config", (cli_args.stop_cond == 'timeout') == truthy(cli_args.seconds)
             and not (truthy(cli_args.seconds) and truthy(cli_args.iterations))
             and (cli_args.stop_cond == 'timeout' or (cli_args.iterations is not None and cast(cli_args.iterations, "Int") >= 1)))
    requires("batch-positive", cli_args.batch >= 1)
    requires("no-faults-yet", len(STATS['faults']) == 0)
    requires("fresh-session", forall(lambda pid: Saved(cli_args.test_directory, pid) not in __fs))
    modifies("__fs", "__failed", "__crash", "__processed", ".crash_msg", ".error", ".Totals.failed", ".passed", ".time",
             ".compilation_time", ".faults", "__faults_file")
    ensures("counted", STATS['totals']['passed'] + STATS['totals']['failed']
            - old(STATS['totals']['passed'] + STATS['totals']['failed']) == __processed - old(__processed))
    local(res="ResList")
    with loop("0"):
        invariant("iter", iteration >= 1)
        invariant("sync", __processed - old(__processed) == iteration - 1)
        invariant("counted", STATS['totals']['passed'] + STATS['totals']['failed']
                  - old(STATS['totals']['passed'] + STATS['totals']['failed']) == __processed - old(__processed))
        invariant("faults-below", forall(lambda pid: implies(pid in STATS['faults'], pid < iteration)))
        invariant("not-saved", forall(lambda pid: implies(pid >= iteration, Saved(cli_args.test_directory, pid) not in __fs)))
    with loop("0.0"):
        invariant("len", len(res) == _i0_0)
        invariant("sync", __processed - old(__processed) == iteration - 1 + _i0_0)
        invariant("dir", tmpdir in __fs and forall(lambda pid: not same(tmpdir, Saved(cli_args.test_directory, pid))
                                                   and not same(tmpdir, Tmp(cli_args.test_directory, pid))))
        invariant("tmp-exists", forall(lambda pid: implies(iteration <= pid and pid < iteration + _i0_0
                                                           and not res[pid - iteration].failed,
                                                           Tmp(cli_args.test_directory, pid) in __fs)))
        invariant("not-saved", forall(lambda pid: implies(pid >= iteration, Saved(cli_args.test_directory, pid) not in __fs)))
        invariant("alloc", forall(lambda i: implies(0 <= i and i < _i0_0, allocated_now(res[i].stats))))
        invariant("stats-distinct", forall(lambda i, j: implies(0 <= i and i < j and j < _i0_0, res[i].stats != res[j].stats)))
        invariant("msg", forall(lambda i: implies(0 <= i and i < _i0_0 and not res[i].failed and NeedsMsg(res[i].stats.programs),
                                                  res[i].stats.error is not None)))


# ---------------------------------------------------------------- worker-pool mode (not verified as a concurrent program):
# only the sequential glue that hands the batch size to update_stats
@profile("pool-glue", slice=True, immutable_globals="hephaestus.__pool")
def _():
    modifies(".*")


@contract("hephaestus.run_parallel.process_res.update")
def _(res: "Any") -> "Any":
    use_profile("pool-glue")
    # the statistics of a result set are updated with the number of programs of THAT set (the last batch may be partial)
    site_call("update_stats", "counts-the-programs-of-this-batch", same(arg1, batch))


# the life cycle of the worker pool: ghost state 0 = open, 1 = closed (no new tasks), 2 = closed and joined (every submitted
# task has finished and its callback has run), 3 = terminated (outstanding tasks are killed, their callbacks never run)
global_var("hephaestus.__pool", "Int")


@external("multiprocessing.Pool")
def _(processes: "Any") -> "Any":
    modifies("__pool")
    ensures("open", __pool == 0)


@external("<any>.close")
def _(self: "Any") -> "None":
    modifies("__pool")
    ensures("closed", __pool == ite(old(__pool) == 0, 1, old(__pool)))


@external("<any>.join")
def _(self: "Any") -> "None":
    """Pool.join() waits for the workers to exit: after close() that means every task and callback has run"""
    modifies("__pool")
    ensures("joined", __pool == ite(old(__pool) == 1, 2, old(__pool)))


@external("<any>.terminate")
def _(self: "Any") -> "None":
    modifies("__pool")
    ensures("terminated", __pool == 3)


@contract("hephaestus.run_parallel")
def _() -> "None":
    """C15 'after any number of batches passed + failed equals the number of programs processed': in worker-pool mode the
    statistics are updated by the callback of the LAST submitted check_oracle task too, so when the batch loop ends normally
    the pool is closed and joined -- never terminated (Pool.__exit__ terminates: a `with pool:` around the loop kills the
    outstanding oracle checks).  Only the sequential shape of the shutdown is verified; the batch loop is opaque here and
    is assumed not to close / terminate the pool (its closures only submit tasks: syntactic obligation in props/C15.py)."""
    use_profile("pool-glue")
    ensures("normal-end-closes-and-joins", implies(not exceptional(), __pool == 2))


# ---------------------------------------------------------------- argument validation the driver relies on
@ghost
def IsDir(fp: "Str") -> "Bool":
    """ghost view of the file system at start-up: fp is a directory"""
    pass


@ghost
def ListDir(fp: "Str") -> "Seq[Str]":
    """ghost view of the file system at start-up: the entries of directory fp"""
    pass


@external("os.path.isdir")
def _(path: "Str") -> "Bool":
    ensures("ghost", result == IsDir(path))


@external("os.listdir")
def _(path: "Str") -> "Seq[Str]":
    ensures("ghost", seq_eq(result, ListDir(path)))


load_module("src.args")


@contract("src.args.validate_args")
def _(args: "Args") -> "None":
    """what _run's preconditions `fresh-session` and `valid-config` rest on: when validate_args returns, the bugs directory
    has no entry named like the session (so no saved test case of an earlier session can collide with a copytree), and at
    most one stop condition is set"""
    use_profile("pool-glue")
    ensures("no-session-of-that-name", not (IsDir(old(args.bugs)) and old(args.name) in ListDir(old(args.bugs))))
    ensures("one-stop-condition", not (truthy(old(args.seconds)) and truthy(old(args.iterations))))
