"""Type identity (the __eq__ / __hash__ overrides of src/ir/types.py).  Parsed by pyvc, never executed.
Loaded with types_sub.py and types_ctor.py.

Every property about subtyping, substitution, unification, the searches and the symbol table's reverse index relies on what
`==` means for IR types.  The contracts below pin it down, for two objects of the SAME class (for different classes every
override answers False through its leading class test): two types are equal iff their identifying parts are equal --
  TypeParameter      name, variance, bound
  WildCardType       variance, bound
  ParameterizedType  name, supertypes, class of the type constructor, its type parameters, the type arguments
  TypeConstructor    name, (printed) type parameters
  SimpleClassifier   name, supertypes
and nothing else (in particular not the inference flag can_infer_type_args).  The hash must be a function of a subset of
those parts, otherwise equal types can land in different buckets."""


@contract("src.ir.types.TypeParameter.__eq__", pure=True)
def _(self: "TypeParameter", other: "TypeParameter") -> "Bool":
    requires("same-class", same_class(self, other))
    ensures("identity", result == (self.name == other.name and self.variance == other.variance and self.bound == other.bound))


@contract("src.ir.types.WildCardType.__eq__", pure=True)
def _(self: "WildCardType", other: "WildCardType") -> "Bool":
    requires("same-class", same_class(self, other))
    ensures("identity", result == (self.variance == other.variance and self.bound == other.bound))


@contract("src.ir.types.ParameterizedType.__eq__", pure=True)
def _(self: "ParameterizedType", other: "ParameterizedType") -> "Bool":
    ensures("identity", result == (self.name == other.name and self.supertypes == other.supertypes
                                   and self.t_constructor.__class__ == other.t_constructor.__class__
                                   and self.t_constructor.type_parameters == other.t_constructor.type_parameters
                                   and self.type_args == other.type_args))


@contract("src.ir.types.TypeConstructor.__eq__", pure=True)
def _(self: "TypeConstructor", other: "TypeConstructor") -> "Bool":
    requires("same-class", same_class(self, other))
    ensures("identity", result == (self.name == other.name and str(self.type_parameters) == str(other.type_parameters)))


@contract("src.ir.types.SimpleClassifier.__eq__", pure=True)
def _(self: "SimpleClassifier", other: "SimpleClassifier") -> "Bool":
    requires("same-class", same_class(self, other))
    ensures("identity", result == (self.name == other.name and self.supertypes == other.supertypes))


@contract("src.ir.types.Builtin.__eq__", pure=True)
def _(self: "Builtin", other: "Type") -> "Bool":
    ensures("identity", result == same_class(self, other))


# hashes: functions of identifying parts only (equal types hash alike)
@contract("src.ir.types.TypeParameter.__hash__", pure=True)
def _(self: "TypeParameter") -> "Int":
    ensures("parts", result == hash(str(self.name) + str(self.variance)))


@contract("src.ir.types.WildCardType.__hash__", pure=True)
def _(self: "WildCardType") -> "Int":
    ensures("parts", result == hash(str(self.name) + str(self.variance)))


@contract("src.ir.types.ParameterizedType.__hash__", pure=True)
def _(self: "ParameterizedType") -> "Int":
    ensures("parts", result == hash(str(self.name) + str(self.supertypes) + str(self.type_args)
                                    + str(self.t_constructor.type_parameters)))


@contract("src.ir.types.Builtin.__hash__", pure=True)
def _(self: "Builtin") -> "Int":
    ensures("parts", result == hash(str(self.__class__)))
