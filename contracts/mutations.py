"""Site contracts for the two mutations (properties C03, C04).  Parsed by pyvc, never executed.
Slice mode (DESIGN 2.7): statements outside the subset are havocked; obligations sit at the attribute stores of the
mutations.  Loaded with types_sub.py and types_ctor.py."""
load_module("src.transformations.base")
load_module("src.transformations.type_overwriting")
load_module("src.transformations.type_erasure")
load_module("src.analysis.type_dependency_analysis")
load_module("src.ir.ast")
fields("DeclarationNode", parent_id="Str", decl="Declaration", node_id="Str")
# the `t` of an instantiation node is a ParameterizedType (constructor call) or a FunctionCall (generic method call); both
# carry the property can_infer_type_args -- modelled as one abstract holder class
declare_class("TypeArgsHolder")
fields("TypeArgsHolder", can_infer_type_args="Bool")
fields("TypeConstructorInstantiationCallNode", parent_id="Str", t="TypeArgsHolder", constructor_call="Any", node_id="Str")
fields("Declaration", inferred_type="Opt[Type]")
fields("VariableDeclaration", var_type="Opt[Type]")
fields("FunctionDeclaration", ret_type="Opt[Type]")
fields("Transformation", is_transformed="Bool", types="Any", program="Any")
fields("TypeOverwriting", error_injected="Opt[Str]", bt_factory="Any", _selected_method="Any", _method_selection="Bool",
       _namespace="Any")


@profile("mutations", slice=True, heap_closed=True)
def _():
    modifies(".*")


@external("src.ir.type_utils.find_irrelevant_type")
def _(etype: "Any", types: "Any", factory: "Any") -> "Opt[Type]":
    """a query (C09): it does not modify the program"""
    pass


# ---------------------------------------------------------------- C04: TypeOverwriting
@contract("src.transformations.type_overwriting.TypeOverwriting.visit_func_decl")
def _(self: "TypeOverwriting", node: "Any") -> "Any":
    use_profile("mutations")
    local(ir_type="Opt[Type]", n="Any")
    # every declared type written by the mutation is the (non-None) type chosen by the irrelevant-type search, and it is
    # written into the declaration of the selected candidate node
    site_store("var_type", "new-type-is-the-irrelevant-type",
               same(value, ir_type) and ir_type is not None and same(target, cast(n, "DeclarationNode").decl))
    site_store("ret_type", "new-type-is-the-irrelevant-type",
               same(value, ir_type) and ir_type is not None and same(target, cast(n, "DeclarationNode").decl))
    site_store("inferred_type", "new-type-is-the-irrelevant-type",
               same(value, ir_type) and ir_type is not None and same(target, cast(n, "DeclarationNode").decl))
    # an injection is reported only after the declared type of the candidate was really overwritten: for a variable its
    # declared type (var_type), otherwise the declared return type, and the recorded type in both cases
    site_store("error_injected", "reported-only-after-overwriting", value is not None and self.is_transformed and implies(
        isinstance(n, DeclarationNode),
        ir_type is not None
        and same(cast(n, "DeclarationNode").decl.inferred_type, ir_type)
        and implies(isinstance(cast(n, "DeclarationNode").decl, VariableDeclaration),
                    same(cast(cast(n, "DeclarationNode").decl, "VariableDeclaration").var_type, ir_type))
        and implies(not isinstance(cast(n, "DeclarationNode").decl, VariableDeclaration),
                    same(cast(cast(n, "DeclarationNode").decl, "FunctionDeclaration").ret_type, ir_type))))
    site_store("is_transformed", "only-set", value is True)


# ---------------------------------------------------------------- C03: TypeErasure
fields("TypeErasure", max_combinations="Any", global_type_graph="Any", _namespace="Any")


@contract("src.transformations.type_erasure.TypeErasure.visit_func_decl")
def _(self: "TypeErasure", node: "Any") -> "Any":
    use_profile("mutations")
    local(g_node="Any")
    # the only things the erasure writes into the program: the inference flag of an instantiation is switched ON, and
    # omit_type() is called on the declaration of a selected candidate node (its contract: only the declared type is removed)
    site_store("can_infer_type_args", "flag-only-switched-on", value is True)
    site_store("is_transformed", "only-set", value is True)
    site_call("omit_type", "on-the-declaration-of-a-candidate", isinstance(g_node, DeclarationNode))


@contract("src.ir.ast.VariableDeclaration.omit_type", frame="self")
def _(self: "VariableDeclaration") -> "None":
    modifies(".var_type")
    ensures("declared-type-removed", self.var_type is None)
    ensures("nothing-else", forall(lambda o: implies(not same(o, self), unchanged(o))))


@contract("src.ir.ast.FunctionDeclaration.omit_type", frame="self")
def _(self: "FunctionDeclaration") -> "None":
    modifies(".ret_type")
    ensures("declared-type-removed", self.ret_type is None)
    ensures("nothing-else", forall(lambda o: implies(not same(o, self), unchanged(o))))
