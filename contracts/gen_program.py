"""Contract of hephaestus.gen_program (properties C15 / C18): what the per-program record says.  Parsed by pyvc, never
executed.  Slice mode: the generator, the transformations and the translators are havocked; the obligations sit at the two
return statements and at the stores into the record.

check_oracle (C15, proved) decides faults from this record: `failed`, stats['programs'] (file -> expected to compile?) and
stats['error'] (the message of an injected fault).  Proved here: the record of a normal run lists the well-typed program
as expected-to-compile and -- only when the fault-injecting stage produced one -- the ill-typed program as
expected-to-be-rejected, together with its message; a failed record (the tool itself failed) is produced exactly on the
exception path."""
dict_record("GStats")
fields("GStats", error="Opt[Any]", programs="Map[Any,Bool]", transformations="Any", time="Any", program="Any")
declare_class("GProgramRes")
fields("GProgramRes", failed="Bool", stats="GStats")
declare_class("GArgs")
fields("GArgs", language="Any", options="Any", examine="Bool", keep_all="Bool", print_stacktrace="Bool", debug="Bool",
       only_correctness_preserving_transformations="Bool")
global_var("hephaestus.cli_args", "GArgs")
bound(f="Any")


# cli_args is parsed once at import of hephaestus.py and only read afterwards (assumed: immutable_fields)
@profile("genprog", slice=True, immutable_globals="hephaestus.cli_args",
         immutable_fields="only_correctness_preserving_transformations,examine,keep_all,print_stacktrace,debug")
def _():
    modifies(".*")


@external("hephaestus.ProgramRes", allocates=True)
def _(failed: "Bool", stats: "GStats") -> "GProgramRes":
    ensures("fields", result.failed == failed and same(result.stats, stats))


@contract("hephaestus.gen_program")
def _(pid: "Any", dirname: "Any", packages: "Any") -> "GProgramRes":
    use_profile("genprog")
    local(stats="GStats", correct_program="Any", incorrect_program="Opt[Tuple[Any]]")
    # the record of a normal run
    site_return("ProgramRes(False, stats)", "not-on-the-exception-path", not exceptional())
    site_return("ProgramRes(False, stats)", "well-typed-program-expected-to-compile",
                correct_program in stats.programs
                # (unless the fault-injecting stage hands back the very same file name, which then overwrites the entry; the
                # two stages write into different packages -- not proved here)
                and (stats.programs[correct_program]
                     or (truthy(incorrect_program) and same(incorrect_program[0], correct_program))))
    site_return("ProgramRes(False, stats)", "nothing-else-but-the-injected-fault", forall(lambda f: implies(
        f in stats.programs and not same(f, correct_program),
        not cli_args.only_correctness_preserving_transformations and truthy(incorrect_program)
        and same(f, incorrect_program[0]) and not stats.programs[f])))
    site_return("ProgramRes(False, stats)", "message-of-the-injected-fault", implies(
        exists(lambda f: f in stats.programs and not same(f, correct_program)),
        truthy(incorrect_program) and same(stats.error, incorrect_program[1])))
    site_return("ProgramRes(False, stats)", "no-message-without-an-injected-fault", implies(
        forall(lambda f: implies(f in stats.programs, stats.programs[f])), stats.error is None))
    # the tool itself failed: only from the exception handler
    site_return("ProgramRes(True, stats)", "failed-record-only-on-the-exception-path", exceptional())


# ---------------------------------------------------------------- the fault-injecting stage hands the mutation's message up
load_module("src.modules.processor")
declare_class("Transformer")
declare_class("ProgramObj")        # an ast.Program: an object reference (unknown callees cannot rebind the local)
fields("Transformer", is_transformed="Bool", error_injected="Opt[Any]")
fields("ProgramProcessor", ncp_transformations="Any", current_transformation="Int")


@contract("src.modules.processor.ProgramProcessor.inject_fault")
def _(self: "ProgramProcessor", program: "Any") -> "Opt[Tuple[Any]]":
    """nothing is reported when the mutation says it injected nothing; otherwise the mutated program is handed on together
    with the mutation's own message (C04: error_injected is stored only together with is_transformed, never None)"""
    use_profile("genprog")
    local(transformer="Transformer")
    site_return("None", "only-if-nothing-was-injected", not transformer.is_transformed)
    site_return("(program, transformer.error_injected)", "only-if-something-was-injected", transformer.is_transformed)


@contract("hephaestus.process_ncp_transformations")
def _(pid: "Any", dirname: "Any", translator: "Any", proc: "Any", program: "ProgramObj", package_name: "Any") -> "Opt[Tuple[Any]]":
    """None exactly when the processor injected nothing; otherwise (file of the ill-typed program, the injected message) --
    the message is the one the processor handed up, and what is saved under that file is the MUTATED program"""
    use_profile("genprog")
    local(res="Opt[Tuple[Any]]", injected_err="Any", dst_file="Any", dst_file2="Any", program_str="Any",
          program="ProgramObj")
    site_return("None", "only-if-nothing-was-injected", res is None)
    site_return("(dst_file, injected_err)", "the-message-handed-up-by-the-processor",
                res is not None and same(injected_err, res[1]))
    site_return("(dst_file, injected_err)", "the-mutated-program", same(program, res[0]))
    site_call("save_program", "saves-the-mutated-program", same(arg0, program) and res is not None and same(program, res[0]))
