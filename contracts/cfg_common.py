"""Configuration object and the use-site variance chooser (shared by C08 and C17).  Parsed by pyvc, never executed."""
declare_class("Cfg")
declare_class("CfgDis")
declare_class("CfgProb")
fields("Cfg", dis="CfgDis", prob="CfgProb")
fields("CfgDis", use_site_variance="Bool", use_site_contravariance="Bool")
fields("CfgProb", bounded_type_parameters="Int", parameterized_functions="Int")
global_var("src.generators.config.cfg", "Cfg")


@external("src.utils.random.choice")
def _(choices: "Seq[Any]") -> "Any":
    requires("non-empty", len(choices) > 0)
    ensures("member", mem(choices, result))


@contract("src.ir.type_utils._get_type_arg_variance")
def _(t_param: "TypeParameter", variance_choices: "Opt[Map[TypeParameter,Tuple[Bool]]]",
      other_type_params: "Seq[TypeParameter]") -> "Variance":
    """(also part of C08) which use-site variance may be chosen for a type argument"""
    requires("constants", VarianceConstants(0))
    requires("valid", Valid(t_param))
    requires("choices-are-pairs", implies(variance_choices is not None, forall(lambda X: implies(
        X in variance_choices, len(variance_choices[X]) == 2))))
    ensures("is-constant", same(result, Invariant) or same(result, Covariant) or same(result, Contravariant))
    ensures("switch-variance", implies(cfg.dis.use_site_variance, result.value == 0))
    ensures("switch-contravariance", implies(cfg.dis.use_site_contravariance, result.value != 2))
    ensures("no-choices", implies(variance_choices is None, result.value == 0))
    ensures("mentioned-in-later-bound", implies(
        exists(lambda j: 0 <= j and j < len(other_type_params) and other_type_params[j].has_bound_of(t_param)),
        result.value == 0))
    ensures("caller-forbids-covariance", implies(
        variance_choices is not None and t_param in variance_choices and not variance_choices[t_param][0],
        result.value != 1))
    ensures("caller-forbids-contravariance", implies(
        variance_choices is not None and t_param in variance_choices and not variance_choices[t_param][1],
        result.value != 2))
    ensures("declared-covariant", implies(t_param.variance.value == 1, result.value != 2))
    ensures("declared-contravariant", implies(t_param.variance.value == 2, result.value != 1))
    local(variances="Seq[Variance]", covariance="Seq[Variance]", contravariance="Seq[Variance]",
          can_variant="Bool", can_contravariant="Bool")


