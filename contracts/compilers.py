"""Contracts for the compiler-output analysis glue (property C14): src/compilers/*.py.  Parsed by pyvc, never executed.

re.search / re.sub / re.findall are external: their results are uninterpreted functions of (pattern, text), so what is
proved is the *grouping glue*: crash first, filters folded in order, every match attributed to its own file in order,
nothing dropped or moved -- relative to the matches.  What the regular expressions match is the bounded part.
"""
load_module("src.compilers.base")
load_module("src.compilers.java")
load_module("src.compilers.kotlin")
load_module("src.compilers.groovy")
load_module("src.compilers.scala")
sort("Regex")
sort("MatchObj")
alias("Match", "Tuple[Str]")
alias("Failed", "Map[Str,Seq[Str]]")
fields("BaseCompiler", input_name="Str", filter_patterns="Seq[Regex]", crash_msg="Opt[Str]",
       ERROR_REGEX="Regex", CRASH_REGEX="Regex")
fields("GroovyCompiler", STACKOVERFLOW_REGEX="Regex")
bound(ms="Seq[Match]", f="Str", n="Int", j="Int", pats="Seq[Regex]", txt="Str", rx="Regex")


@ghost(typed_result=True)
def ReSearch(rx: "Regex", txt: "Str") -> "Opt[MatchObj]":
    pass


@ghost(typed_result=True)
def ReSub(rx: "Regex", txt: "Str") -> "Str":
    """re.sub(rx, '', txt)"""
    pass


@ghost(typed_result=True)
def ReFindall(rx: "Regex", txt: "Str") -> "Seq[Match]":
    axiom("groups", forall(lambda rx, txt, j: implies(0 <= j and j < len(ReFindall(rx, txt)), len(ReFindall(rx, txt)[j]) >= 2),
                           triggers=[ReFindall(rx, txt)[j]]))


@ghost(typed_result=True)
def Filtered(pats: "Seq[Regex]", txt: "Str", n: "Int") -> "Str":
    """the output after deleting, in order, the first n filter patterns"""
    axiom("base", forall(lambda pats, txt: same(Filtered(pats, txt, 0), txt), triggers=[Filtered(pats, txt, 0)]))
    axiom("step", forall(lambda pats, txt, n, j: implies(j == n - 1 and j >= 0, same(
        Filtered(pats, txt, n), ReSub(pats[j], Filtered(pats, txt, j)))),
        triggers=[(Filtered(pats, txt, n), pats[j])]))


@ghost(typed_result=True)
def Msgs(ms: "Seq[Match]", f: "Str", n: "Int") -> "Seq[Str]":
    """messages of the first n matches whose file is f, in order"""
    axiom("base", forall(lambda ms, f: same(Msgs(ms, f, 0), empty_seq("Seq[Str]")), triggers=[Msgs(ms, f, 0)]))
    axiom("step", forall(lambda ms, f, n, j: implies(j == n - 1 and j >= 0, same(Msgs(ms, f, n), ite(
        ms[j][0] == f, snoc(Msgs(ms, f, j), ms[j][1]), Msgs(ms, f, j)))), triggers=[(Msgs(ms, f, n), ms[j])]))


@external("re.search")
def _(pattern: "Regex", string: "Str") -> "Opt[MatchObj]":
    ensures("def", same(result, ReSearch(pattern, string)))


@external("re.sub/3")
def _(pattern: "Regex", repl: "Str", string: "Str") -> "Str":
    ensures("def", implies(repl == '', same(result, ReSub(pattern, string))))


@ghost(typed_result=True)
def ReSubN(rx: "Regex", txt: "Str", n: "Int") -> "Str":
    """re.sub(rx, '', txt, count): at most `count` occurrences removed -- NOT what the filter clause asks for"""
    pass


@external("re.sub/4")
def _(pattern: "Regex", repl: "Str", string: "Str", count: "Any") -> "Str":
    ensures("def", same(result, ReSubN(pattern, string, 0)))


@external("re.findall")
def _(pattern: "Regex", string: "Str") -> "Seq[Match]":
    ensures("def", same(result, ReFindall(pattern, string)))


@family("src.compilers.base.BaseCompiler.get_filename", pure=True)
def _(self: "BaseCompiler", match: "Match") -> "Str":
    requires("groups", len(match) >= 2)
    ensures("first-group", result == match[0])


@family("src.compilers.base.BaseCompiler.get_error_msg", pure=True)
def _(self: "BaseCompiler", match: "Match") -> "Str":
    requires("groups", len(match) >= 2)
    ensures("second-group", result == match[1])


@family("src.compilers.base.BaseCompiler.analyze_compiler_output")
def _(self: "BaseCompiler", output: "Str") -> "Tuple[Any]":
    modifies(".crash_msg")
    ensures("pair", len(result) == 2)
    ensures("crash", implies(truthy(ReSearch(self.CRASH_REGEX, output)),
                             same(self.crash_msg, output) and result[0] is None and len(cast(result[1], "Seq[Match]")) == 0))
    ensures("no-crash-untouched", implies(not truthy(ReSearch(self.CRASH_REGEX, output)) and not GroovyOverflow(self, output),
                                          unchanged(self, 'crash_msg')))
    ensures("matches", implies(not truthy(ReSearch(self.CRASH_REGEX, output)), same(
        cast(result[1], "Seq[Match]"),
        ReFindall(self.ERROR_REGEX, Filtered(self.filter_patterns, output, len(self.filter_patterns))))))
    ensures("attribution", implies(
        not truthy(ReSearch(self.CRASH_REGEX, output)) and not GroovyOverflow(self, output),
        result[0] is not None and forall(lambda f: (
            (f in cast(result[0], "Failed")) == (len(Msgs(cast(result[1], "Seq[Match]"), f, len(cast(result[1], "Seq[Match]")))) > 0)
            and implies(f in cast(result[0], "Failed"),
                        cast(result[0], "Failed")[f] == Msgs(cast(result[1], "Seq[Match]"), f, len(cast(result[1], "Seq[Match]"))))))))
    ensures("frame", forall(lambda o: implies(not same(o, self), unchanged(o, 'crash_msg'))))


bound(o="BaseCompiler")


@ghost
def GroovyOverflow(c: "BaseCompiler", txt: "Str") -> "Bool":
    """Groovy only: a StackOverflowError in the output with no diagnostic matched is a crash"""
    define(isinstance(c, GroovyCompiler) and truthy(ReSearch(cast(c, "GroovyCompiler").STACKOVERFLOW_REGEX, txt))
           and len(ReFindall(c.ERROR_REGEX, Filtered(c.filter_patterns, txt, len(c.filter_patterns)))) == 0)


@contract("src.compilers.base.BaseCompiler.analyze_compiler_output")
def _(self: "BaseCompiler", output: "Str") -> "Tuple[Any]":
    """the shared implementation (inherited by the Java, Kotlin and Scala compilers; called via super() by Groovy)"""
    modifies(".crash_msg")
    ensures("pair", len(result) == 2)
    ensures("crash", implies(truthy(ReSearch(self.CRASH_REGEX, output)),
                             same(self.crash_msg, output) and result[0] is None and len(cast(result[1], "Seq[Match]")) == 0))
    ensures("no-crash-untouched", implies(not truthy(ReSearch(self.CRASH_REGEX, output)), unchanged(self, 'crash_msg')))
    ensures("matches", implies(not truthy(ReSearch(self.CRASH_REGEX, output)), same(
        cast(result[1], "Seq[Match]"),
        ReFindall(self.ERROR_REGEX, Filtered(self.filter_patterns, output, len(self.filter_patterns))))))
    ensures("attribution", implies(
        not truthy(ReSearch(self.CRASH_REGEX, output)),
        result[0] is not None and forall(lambda f: (
            (f in cast(result[0], "Failed")) == (len(Msgs(cast(result[1], "Seq[Match]"), f, len(cast(result[1], "Seq[Match]")))) > 0)
            and implies(f in cast(result[0], "Failed"),
                        cast(result[0], "Failed")[f] == Msgs(cast(result[1], "Seq[Match]"), f, len(cast(result[1], "Seq[Match]"))))))))
    ensures("frame", forall(lambda o: implies(not same(o, self), unchanged(o, 'crash_msg'))))
    local(failed="DefaultMap[Str,Seq[Str]]", matches="Seq[Match]", filtered_output="Str")
    with loop("0"):
        invariant("fold", same(filtered_output, Filtered(self.filter_patterns, output, _i0)))
    with loop("1"):
        invariant("attribution", forall(lambda f: ((f in failed) == (len(Msgs(matches, f, _i1)) > 0))
                                        and implies(f in failed, failed[f] == Msgs(matches, f, _i1))))


@contract("src.compilers.groovy.GroovyCompiler.analyze_compiler_output")
def _(self: "GroovyCompiler", output: "Str") -> "Tuple[Any]":
    """verified against the family contract above (same clauses)"""
    modifies(".crash_msg")
    ensures("pair", len(result) == 2)
    ensures("crash", implies(truthy(ReSearch(self.CRASH_REGEX, output)),
                             same(self.crash_msg, output) and result[0] is None and len(cast(result[1], "Seq[Match]")) == 0))
    ensures("overflow-crash", implies(not truthy(ReSearch(self.CRASH_REGEX, output)) and GroovyOverflow(self, output),
                                      same(self.crash_msg, output) and result[0] is None))
    ensures("no-crash-untouched", implies(not truthy(ReSearch(self.CRASH_REGEX, output)) and not GroovyOverflow(self, output),
                                          unchanged(self, 'crash_msg')))
    ensures("matches", implies(not truthy(ReSearch(self.CRASH_REGEX, output)), same(
        cast(result[1], "Seq[Match]"),
        ReFindall(self.ERROR_REGEX, Filtered(self.filter_patterns, output, len(self.filter_patterns))))))
    ensures("attribution", implies(
        not truthy(ReSearch(self.CRASH_REGEX, output)) and not GroovyOverflow(self, output),
        result[0] is not None and forall(lambda f: (
            (f in cast(result[0], "Failed")) == (len(Msgs(cast(result[1], "Seq[Match]"), f, len(cast(result[1], "Seq[Match]")))) > 0)
            and implies(f in cast(result[0], "Failed"),
                        cast(result[0], "Failed")[f] == Msgs(cast(result[1], "Seq[Match]"), f, len(cast(result[1], "Seq[Match]"))))))))
    ensures("frame", forall(lambda o: implies(not same(o, self), unchanged(o, 'crash_msg'))))
    local(failed="Opt[Failed]", matches="Seq[Match]")
