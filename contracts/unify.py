"""Contract of the binding helper of unify_types (property C10: no variable is given two different types).
Parsed by pyvc, never executed.  Loaded with types_sub.py (PyEq = the answer of the IR's own __eq__)."""
alias("TVMap", "Map[TypeParameter,Type]")


@contract("src.ir.type_utils._update_type_var_map")
def _(type_var_map: "TVMap", key: "TypeParameter", value: "Type") -> "Bool":
    """records key := value unless key is already bound to a (truthy) type that differs from value"""
    modifies("type_var_map")
    ensures("conflict-iff", result == (not (key in old(type_var_map) and old(type_var_map)[key] != value)))
    ensures("bound-on-success", implies(result, key in type_var_map and same(type_var_map[key], value)))
    ensures("others-kept", forall(lambda X: implies(not same(X, key), (X in type_var_map) == (X in old(type_var_map))
                                                    and implies(X in old(type_var_map),
                                                                same(type_var_map[X], old(type_var_map)[X])))))
    ensures("unchanged-on-conflict", implies(not result, map_eq(type_var_map, old(type_var_map))))


# ---------------------------------------------------------------- unify_types (slice mode: obligations at every binding
# site and at every return statement)
bound(k="TypeParameter", v="Type", fac="Any")


# immutable_fields: the callees of unify_types (is_subtype, has_type_variables, get_bound_rec, the recursive calls) are queries;
# that they do not modify existing types is assumed here (C06: the judgement is pure; C07: substitution writes to fresh objects)
@profile("unify", slice=True, heap_closed=True,
         immutable_fields="t_constructor,type_args,variance,bound,name,supertypes,type_parameters,value")
def _():
    modifies(".*")


@family("src.ir.types.Type.get_bound_rec", pure=True)
def _(self: "Type", factory: "Any") -> "Opt[Type]":
    """the variable-free bound a type variable must respect (follows variable-to-variable bounds)"""
    pass


@contract("src.ir.types.Variance.__eq__", pure=True)
def _(self: "Variance", other: "Variance") -> "Bool":
    requires("same-class", same_class(self, other))
    ensures("by-value", result == (self.value == other.value))


bound(va="Variance", vb="Variance")


@ghost
def VarianceEq(j: "Int") -> "Bool":
    """== / != between two Variance objects compares their values (Variance.__eq__, proved above): links the symbol the
    engine uses for `==` on objects to that contract"""
    axiom("by-value", forall(lambda va, vb: PyEq(va, vb) == (va.value == vb.value), triggers=[PyEq(va, vb)]))


@ghost
def WithinBound(k: "TypeParameter", v: "Type", fac: "Any") -> "Bool":
    """the type v assigned to the variable k satisfies k's bound: introduction rules only -- the type system answered
    v.is_subtype(bound) (a subtype in the declarative relation by C06's proved contract) for the declared bound or for
    its variable-free form get_bound_rec, or k has no bound"""
    rule("unbounded", forall(lambda k, v, fac: implies(k.bound is None, WithinBound(k, v, fac))))
    rule("declared", forall(lambda k, v, fac: implies(k.bound is not None and v.is_subtype(k.bound),
                                                      WithinBound(k, v, fac))))
    rule("resolved", forall(lambda k, v, fac: implies(
        k.get_bound_rec(fac) is None or v.is_subtype(k.get_bound_rec(fac)), WithinBound(k, v, fac))))
    # two type variables: the bound of the assigned variable is below the bound of the pattern variable
    rule("variable", forall(lambda k, v, fac: implies(
        isinstance(v, TypeParameter) and v.get_bound_rec(fac) is not None and k.get_bound_rec(fac) is not None
        and v.get_bound_rec(fac).is_subtype(k.get_bound_rec(fac)), WithinBound(k, v, fac))))


@ghost
def SamePosition(a1: "Type", a2: "Type", x1: "Type", x2: "Type") -> "Bool":
    """(x1, x2) are the components of the target / pattern argument pair (a1, a2) that are matched against each other: the
    arguments themselves, or -- only for two use-site projections of the SAME kind -- their bounds"""
    define((same(x1, a1) and same(x2, a2) and not isinstance(a2, WildCardType))
           or (isinstance(a1, WildCardType) and isinstance(a2, WildCardType)
               and cast(a1, "WildCardType").variance.value == cast(a2, "WildCardType").variance.value
               and same(x1, cast(a1, "WildCardType").bound) and same(x2, cast(a2, "WildCardType").bound)
               and x1 is not None and x2 is not None))


bound(a1="Type", a2="Type", x1="Type", x2="Type")


@contract("src.ir.type_utils.unify_types")
def _(t1: "Type", t2: "Type", factory: "Any", same_type: "Bool") -> "Map[TypeParameter,Type]":
    use_profile("unify")
    requires("valid", Valid(t1) and Valid(t2))
    requires("variance-eq", VarianceEq(0))
    local(type_var_map="TVMap", t_var="Opt[TypeParameter]", t_arg1="Type", t_arg2="Type", t_arg="Type", i="Int",
          res="Map[TypeParameter,Type]", supertype="Type")
    # ---- every return statement (a return of an unlisted form is a failed obligation)
    site_return("{}", "nothing", True)
    # supertype-matching mode climbs to the last declared supertype of the target
    site_return("unify_types(supertype, t2, factory, same_type=same_type)", "climbs-the-hierarchy",
                not same_type and len(t1.supertypes) > 0 and same(supertype, t1.supertypes[len(t1.supertypes) - 1]))
    # the pattern is a type variable: it is bound to the target, which satisfies its bound
    site_return("{t2: t1}", "pattern-variable-within-bound",
                isinstance(t2, TypeParameter) and WithinBound(cast(t2, "TypeParameter"), t1, factory))
    # two instantiations of the same class: the map filled at the binding sites below
    site_return("type_var_map", "same-generic-class",
                isinstance(t1, ParameterizedType) and isinstance(t2, ParameterizedType)
                and not (cast(t1, "ParameterizedType").t_constructor != cast(t2, "ParameterizedType").t_constructor))
    # ---- the binding sites inside the argument loop
    # a pattern variable is bound to the target's component at the SAME position (projections only unwrapped pairwise and
    # only for equal kinds), and the component satisfies the variable's bound
    site_call("_update_type_var_map", "binds-the-component-at-the-same-position-within-its-bound", (
        (t_var is not None and same(arg1, t_var) and 0 <= i and i < len(cast(t1, "ParameterizedType").type_args)
         and SamePosition(cast(t1, "ParameterizedType").type_args[i], cast(t2, "ParameterizedType").type_args[i], arg2, t_var)
         and WithinBound(cast(t_var, "TypeParameter"), arg2, factory))
        # ... or a binding handed up by the recursive call on the components at this position (clause below)
        or (arg1 in res and same(arg2, res[arg1]))))
    # recursion only on the components at the same position: target component vs. the pattern component itself, or vs. the
    # bound of the pattern variable
    site_call("unify_types", "recursion-on-the-components-at-the-same-position", (
        (same(arg0, supertype) and same(arg1, t2))
        or (0 <= i and i < len(cast(t1, "ParameterizedType").type_args)
            and SamePosition(cast(t1, "ParameterizedType").type_args[i], cast(t2, "ParameterizedType").type_args[i],
                             arg0, t_arg2)
            and (same(arg1, t_arg2) or (t_var is not None and same(t_var, t_arg2)
                                        and same(arg1, cast(t_var, "TypeParameter").bound))))))
    site_call("_update_type_var_map", "into-the-result-map", same(arg0, type_var_map))
