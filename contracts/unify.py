"""Contract of the binding helper of unify_types (property C10: no variable is given two different types).
Parsed by pyvc, never executed.  Loaded with types_sub.py (PyEq = the answer of the IR's own __eq__)."""
alias("TVMap", "Map[TypeParameter,Type]")


@contract("src.ir.type_utils._update_type_var_map")
def _(type_var_map: "TVMap", key: "TypeParameter", value: "Type") -> "Bool":
    """records key := value unless key is already bound to a (truthy) type that differs from value"""
    modifies("type_var_map")
    ensures("conflict-iff", result == (not (key in old(type_var_map) and old(type_var_map)[key] != value)))
    ensures("bound-on-success", implies(result, key in type_var_map and same(type_var_map[key], value)))
    ensures("others-kept", forall(lambda X: implies(not same(X, key), (X in type_var_map) == (X in old(type_var_map))
                                                    and implies(X in old(type_var_map),
                                                                same(type_var_map[X], old(type_var_map)[X])))))
    ensures("unchanged-on-conflict", implies(not result, map_eq(type_var_map, old(type_var_map))))
