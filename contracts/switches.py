"""Site contracts for the generation switches (property C17).  Parsed by pyvc, never executed.
Loaded with types_sub.py and types_ctor.py.

Global invariant J over all objects that exist (DESIGN.md C17):
  J1  cfg.dis.use_site_variance        ==>  no WildCardType object exists
  J2  cfg.dis.use_site_contravariance  ==>  no WildCardType with a contravariant variance exists
Proved by induction over the construction sites: each function that contains a `WildCardType(...)` call is executed
symbolically in slice mode under the hypothesis J (for every object that exists), and J is shown for the new object.
"""
bound(w="Type")


@ghost
def J(d: "Int") -> "Bool":
    pass


@profile("wildcards", slice=True,
         immutable_fields="dis,prob,use_site_variance,use_site_contravariance,bounded_type_parameters,parameterized_functions,value",
         heap_closed=True,
         immutable_globals="src.generators.config.cfg")
def _():
    modifies(".*")
    global_invariant("J1", implies(cfg.dis.use_site_variance,
                                   forall(lambda w: implies(allocated_now(w), not isinstance(w, WildCardType)))))
    global_invariant("J2", implies(cfg.dis.use_site_contravariance, forall(lambda w: implies(
        allocated_now(w) and isinstance(w, WildCardType), cast(w, "WildCardType").variance.value != 2))))
    site("WildCardType", "J1", not cfg.dis.use_site_variance)
    site("WildCardType", "J2", implies(cfg.dis.use_site_contravariance, new.variance.value != 2))


@contract("src.ir.types._get_type_substitution")
def _(etype: "Type", type_map: "Any", cond: "Any") -> "Any":
    use_profile("wildcards")


@contract("src.ir.types._to_type_variable_free")
def _(t: "Type", t_param: "TypeParameter", factory: "Any") -> "Any":
    use_profile("wildcards")
    requires("constants", VarianceConstants(0))
    # (used by get_bound_rec, i.e. by the bound checks of unification, C10) a type variable in a position that is DECLARED
    # contravariant becomes a star projection, in any other position an out-projection
    site("WildCardType", "star-if-declared-contravariant", implies(t_param.is_contravariant(),
                                                                     new.bound is None and new.variance.value == 0))
    site("WildCardType", "out-projection-otherwise", implies(not t_param.is_contravariant(), new.variance.value == 1))


@contract("src.ir.types.ParameterizedType.to_type_variable_free")
def _(self: "ParameterizedType", factory: "Any") -> "Any":
    use_profile("wildcards")
    requires("constants", VarianceConstants(0))


@contract("src.ir.types.TypeParameter.get_bound_rec")
def _(self: "TypeParameter", factory: "Any") -> "Any":
    use_profile("wildcards")


@contract("src.ir.types.WildCardType.get_bound_rec", pure=True)
def _(self: "WildCardType") -> "Opt[Type]":
    pass


@contract("src.ir.types.TypeConstructor.new")
def _(self: "TypeConstructor", type_args: "Any") -> "Any":
    use_profile("wildcards")


# ---------------------------------------------------------------- type_utils sites
@contract("src.ir.type_utils._find_candidate_type_args")
def _(t_param: "TypeParameter", base_targ: "Opt[Type]") -> "Any":
    use_profile("wildcards")
    requires("constants", VarianceConstants(0))
    local(base_targ="Opt[Type]")


@contract("src.ir.type_utils._compute_type_variable_assignments")
def _() -> "Any":
    use_profile("wildcards")
    requires("constants", VarianceConstants(0))
    local(variance="Variance", cls_type="Type", t_param="TypeParameter")


# ---------------------------------------------------------------- J3 / J4 at the generator's decision points
# (the copies made by substitution / instantiation / TypeUpdater are bounded only: DESIGN 10.3 C17)
@external("src.utils.random.bool/1")
def _(prob: "Int") -> "Bool":
    """RandomUtils.bool(prob) is `random() < prob` with random() in [0, 1): never True for prob == 0"""
    ensures("never-at-zero", implies(prob == 0, not result))


@external("src.utils.random.bool/0")
def _() -> "Bool":
    pass


load_module("src.generators.generator")
fields("Generator", language="Str")


@contract("src.generators.generator.Generator.gen_type_params")
def _(self: "Generator", count: "Any", with_variance: "Bool", blacklist: "Any", for_function: "Any") -> "Seq[TypeParameter]":
    use_profile("wildcards")
    requires("constants", VarianceConstants(0))
    site("TypeParameter", "J3-decision", implies(cfg.prob.bounded_type_parameters == 0, new.bound is None))
    # declaration-site variance only when the caller asks for it
    site("TypeParameter", "J5-J6-variance-only-on-request", implies(not with_variance, new.variance.value == 0))


@contract("src.generators.generator.Generator.gen_func_decl")
def _(self: "Generator", etype: "Any", not_void: "Any", class_is_final: "Any", func_name: "Any", params: "Any", abstract: "Any",
      is_interface: "Any", type_params: "Opt[Seq[TypeParameter]]", namespace: "Any") -> "Any":
    use_profile("wildcards")
    local(type_params="Opt[Seq[TypeParameter]]")
    # when the caller leaves the choice to the generator, a disabled switch means: no type parameters
    site_call("_remove_unused_type_params", "J4-decision", implies(
        cfg.prob.parameterized_functions == 0 and old(type_params) is None, arg0 is not None and len(cast(arg0, "Seq[TypeParameter]")) == 0))
    # type parameters of functions are never variant
    site_call("gen_type_params", "J6-decision", kw_with_variance is False)


@contract("src.generators.generator.Generator.gen_class_decl")
def _(self: "Generator", field_type: "Any", fret_type: "Any", not_void: "Any", type_params: "Any", class_name: "Any",
      signature: "Any") -> "Any":
    use_profile("wildcards")
    # declaration-site variance only in the languages that have it
    site_call("gen_type_params", "J5-decision", implies(kw_with_variance, self.language == 'kotlin' or self.language == 'scala'))


@contract("src.generators.generator.Generator._create_type_params_from_etype")
def _(self: "Generator", etype: "Any") -> "Any":
    use_profile("wildcards")
    site_call("gen_type_params", "J5-decision", implies(kw_with_variance, self.language == 'kotlin' or self.language == 'scala'))
