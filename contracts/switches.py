"""Site contracts for the generation switches (property C17).  Parsed by pyvc, never executed.
Loaded with types_sub.py and types_ctor.py.

Global invariant J over all objects that exist (DESIGN.md C17):
  J1  cfg.dis.use_site_variance        ==>  no WildCardType object exists
  J2  cfg.dis.use_site_contravariance  ==>  no WildCardType with a contravariant variance exists
Proved by induction over the construction sites: each function that contains a `WildCardType(...)` call is executed
symbolically in slice mode under the hypothesis J (for every object that exists), and J is shown for the new object.
"""
declare_class("Cfg")
declare_class("CfgDis")
declare_class("CfgProb")
fields("Cfg", dis="CfgDis", prob="CfgProb")
fields("CfgDis", use_site_variance="Bool", use_site_contravariance="Bool")
fields("CfgProb", bounded_type_parameters="Int", parameterized_functions="Int")
global_var("src.generators.config.cfg", "Cfg")
bound(w="Type")


@ghost
def J(d: "Int") -> "Bool":
    pass


@profile("wildcards", slice=True,
         immutable_fields="dis,prob,use_site_variance,use_site_contravariance,bounded_type_parameters,parameterized_functions,value",
         heap_closed=True,
         immutable_globals="src.generators.config.cfg")
def _():
    modifies(".*")
    global_invariant("J1", implies(cfg.dis.use_site_variance,
                                   forall(lambda w: implies(allocated_now(w), not isinstance(w, WildCardType)))))
    global_invariant("J2", implies(cfg.dis.use_site_contravariance, forall(lambda w: implies(
        allocated_now(w) and isinstance(w, WildCardType), cast(w, "WildCardType").variance.value != 2))))
    site("WildCardType", "J1", not cfg.dis.use_site_variance)
    site("WildCardType", "J2", implies(cfg.dis.use_site_contravariance, new.variance.value != 2))


@contract("src.ir.types._get_type_substitution")
def _(etype: "Type", type_map: "Any", cond: "Any") -> "Any":
    use_profile("wildcards")


@contract("src.ir.types._to_type_variable_free")
def _(t: "Type", t_param: "TypeParameter", factory: "Any") -> "Any":
    use_profile("wildcards")
    requires("constants", VarianceConstants(0))


@contract("src.ir.types.ParameterizedType.to_type_variable_free")
def _(self: "ParameterizedType", factory: "Any") -> "Any":
    use_profile("wildcards")
    requires("constants", VarianceConstants(0))


@contract("src.ir.types.TypeParameter.get_bound_rec")
def _(self: "TypeParameter", factory: "Any") -> "Any":
    use_profile("wildcards")


@family("src.ir.types.Type.has_type_variables", pure=True)
def _(self: "Type") -> "Bool":
    pass


@contract("src.ir.types.WildCardType.get_bound_rec", pure=True)
def _(self: "WildCardType") -> "Opt[Type]":
    pass


@contract("src.ir.types.TypeConstructor.new")
def _(self: "TypeConstructor", type_args: "Any") -> "Any":
    use_profile("wildcards")


# ---------------------------------------------------------------- type_utils sites
@external("src.utils.random.choice")
def _(choices: "Seq[Any]") -> "Any":
    requires("non-empty", len(choices) > 0)
    ensures("member", mem(choices, result))


@contract("src.ir.type_utils._get_type_arg_variance")
def _(t_param: "TypeParameter", variance_choices: "Opt[Map[TypeParameter,Tuple[Bool]]]",
      other_type_params: "Seq[TypeParameter]") -> "Variance":
    """(also part of C08) which use-site variance may be chosen for a type argument"""
    requires("constants", VarianceConstants(0))
    requires("valid", Valid(t_param))
    requires("choices-are-pairs", implies(variance_choices is not None, forall(lambda X: implies(
        X in variance_choices, len(variance_choices[X]) == 2))))
    ensures("is-constant", same(result, Invariant) or same(result, Covariant) or same(result, Contravariant))
    ensures("switch-variance", implies(cfg.dis.use_site_variance, result.value == 0))
    ensures("switch-contravariance", implies(cfg.dis.use_site_contravariance, result.value != 2))
    ensures("no-choices", implies(variance_choices is None, result.value == 0))
    ensures("mentioned-in-later-bound", implies(
        exists(lambda j: 0 <= j and j < len(other_type_params) and other_type_params[j].has_bound_of(t_param)),
        result.value == 0))
    ensures("caller-forbids-covariance", implies(
        variance_choices is not None and t_param in variance_choices and not variance_choices[t_param][0],
        result.value != 1))
    ensures("caller-forbids-contravariance", implies(
        variance_choices is not None and t_param in variance_choices and not variance_choices[t_param][1],
        result.value != 2))
    ensures("declared-covariant", implies(t_param.variance.value == 1, result.value != 2))
    ensures("declared-contravariant", implies(t_param.variance.value == 2, result.value != 1))
    local(variances="Seq[Variance]", covariance="Seq[Variance]", contravariance="Seq[Variance]",
          can_variant="Bool", can_contravariant="Bool")


@contract("src.ir.type_utils._find_candidate_type_args")
def _(t_param: "TypeParameter", base_targ: "Opt[Type]") -> "Any":
    use_profile("wildcards")
    requires("constants", VarianceConstants(0))
    local(base_targ="Opt[Type]")


@contract("src.ir.type_utils._compute_type_variable_assignments")
def _() -> "Any":
    use_profile("wildcards")
    requires("constants", VarianceConstants(0))
    local(variance="Variance", cls_type="Type", t_param="TypeParameter")
