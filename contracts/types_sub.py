"""Contracts for the subtyping judgement (property C06): src/ir/types.py, builtins.py and the language type modules.
Parsed by pyvc, never executed.

Soundness by rule justification (DESIGN.md 2.9): Sub / Cont / SupStar are given only by introduction rules written from
the declarative relation (Kotlin/Java containment rules), not from the code.  `result ==> Sub(self, other)` proved from
these Horn rules holds in every model of the rules, in particular in the least one, which is the declarative relation.
"""
load_module("src.ir.types")
load_module("src.ir.builtins")
load_module("src.ir.java_types")
load_module("src.ir.kotlin_types")
load_module("src.ir.groovy_types")
load_module("src.ir.scala_types")
fields("Type", name="Str", supertypes="Seq[Type]")
fields("TypeParameter", variance="Variance", bound="Opt[Type]")
fields("WildCardType", variance="Variance", bound="Opt[Type]")
fields("TypeConstructor", type_parameters="Seq[TypeParameter]")
fields("ParameterizedType", t_constructor="TypeConstructor", type_args="Seq[Type]", _can_infer_type_args="Bool")
fields("ParameterizedFunction", type_parameters="Seq[TypeParameter]")
fields("Function", param_types="Seq[Type]", ret_type="Type")
fields("Variance", value="Int")
fields("JavaBuiltin", primitive="Bool")
fields("GroovyBuiltin", primitive="Bool")
global_var("src.ir.types.Invariant", "Variance")
global_var("src.ir.types.Covariant", "Variance")
global_var("src.ir.types.Contravariant", "Variance")
bound(a="Type", b="Type", S="Type", T="Type", U="Type", W="Type", s="Type", t="Type", p="TypeParameter", X="TypeParameter", i="Int", j="Int")


@ghost
def PyEq(a: "Type", b: "Type") -> "Bool":
    """the answer of a.__eq__(b) (uninterpreted here; the __eq__ overrides are under contract separately)"""
    axiom("constructor-arity", forall(lambda a, b: implies(
        PyEq(a, b) and isinstance(a, TypeConstructor) and isinstance(b, TypeConstructor),
        len(cast(a, "TypeConstructor").type_parameters) == len(cast(b, "TypeConstructor").type_parameters))))


@ghost
def Valid(t: "Type") -> "Bool":
    """well-formedness promised by callers (DESIGN C06 valid_type): consequences only"""
    axiom("supertypes", forall(lambda t, i: implies(Valid(t) and 0 <= i and i < len(t.supertypes), Valid(t.supertypes[i])),
                               triggers=[(Valid(t), t.supertypes[i])]))
    axiom("param-args", forall(lambda t: implies(
        Valid(t) and isinstance(t, ParameterizedType),
        len(cast(t, "ParameterizedType").type_args) == len(cast(t, "ParameterizedType").t_constructor.type_parameters)
        and Valid(cast(t, "ParameterizedType").t_constructor)), triggers=[Valid(t)]))
    # (TypeConstructor.__init__ asserts that a generic class has at least one type parameter)
    axiom("param-args-nonempty", forall(lambda t: implies(
        Valid(t) and isinstance(t, ParameterizedType), len(cast(t, "ParameterizedType").type_args) >= 1), triggers=[Valid(t)]))
    axiom("param-args-valid", forall(lambda t, i: implies(
        Valid(t) and isinstance(t, ParameterizedType) and 0 <= i and i < len(cast(t, "ParameterizedType").type_args),
        Valid(cast(t, "ParameterizedType").type_args[i])),
        triggers=[(Valid(t), cast(t, "ParameterizedType").type_args[i])]))
    axiom("constructor-params", forall(lambda t, i: implies(
        Valid(t) and isinstance(t, TypeConstructor) and 0 <= i and i < len(cast(t, "TypeConstructor").type_parameters),
        Valid(cast(t, "TypeConstructor").type_parameters[i])),
        triggers=[(Valid(t), cast(t, "TypeConstructor").type_parameters[i])]))
    axiom("no-conflicting-projection", forall(lambda t, i: implies(
        Valid(t) and isinstance(t, ParameterizedType) and 0 <= i and i < len(cast(t, "ParameterizedType").type_args)
        and isinstance(cast(t, "ParameterizedType").type_args[i], WildCardType),
        NoConflict(cast(t, "ParameterizedType").type_args[i], cast(t, "ParameterizedType").t_constructor.type_parameters[i])),
        triggers=[(Valid(t), cast(t, "ParameterizedType").type_args[i])]))
    axiom("variance-range-var", forall(lambda t: implies(
        Valid(t) and isinstance(t, TypeParameter),
        0 <= cast(t, "TypeParameter").variance.value and cast(t, "TypeParameter").variance.value <= 2), triggers=[Valid(t)]))
    axiom("variance-range-wild", forall(lambda t: implies(
        Valid(t) and isinstance(t, WildCardType),
        0 <= cast(t, "WildCardType").variance.value and cast(t, "WildCardType").variance.value <= 2), triggers=[Valid(t)]))
    axiom("bound-var", forall(lambda t: implies(
        Valid(t) and isinstance(t, TypeParameter) and cast(t, "TypeParameter").bound is not None,
        Valid(cast(t, "TypeParameter").bound)), triggers=[Valid(t)]))
    axiom("bound-wild", forall(lambda t: implies(
        Valid(t) and isinstance(t, WildCardType),
        (cast(t, "WildCardType").bound is None or Valid(cast(t, "WildCardType").bound))
        and ((cast(t, "WildCardType").variance.value == 0) == (cast(t, "WildCardType").bound is None))),
        triggers=[Valid(t)]))


@ghost
def VarianceConstants(k: "Int") -> "Bool":
    """module constants of src/ir/types.py: Invariant = Variance(0), Covariant = Variance(1), Contravariant = Variance(2)"""
    axiom("values", Invariant.value == 0 and Covariant.value == 1 and Contravariant.value == 2)


@ghost
def NoConflict(s: "Type", p: "TypeParameter") -> "Bool":
    """a use-site projection does not contradict the declared variance of its position (such types are ill-formed)"""
    define(not isinstance(s, WildCardType) or cast(s, "WildCardType").variance.value == 0 or p.variance.value == 0
           or cast(s, "WildCardType").variance.value == p.variance.value)


@ghost
def SupStar(S: "Type", U: "Type") -> "Bool":
    """U is a (transitive) declared supertype of S"""
    rule("direct", forall(lambda S, i: implies(0 <= i and i < len(S.supertypes), SupStar(S, S.supertypes[i]))))
    rule("trans", forall(lambda S, U, i: implies(SupStar(S, U) and 0 <= i and i < len(U.supertypes),
                                                 SupStar(S, U.supertypes[i]))))


@ghost
def IsNothing(S: "Type") -> "Bool":
    define(isinstance(S, (types.NothingType, builtins.NothingType, kotlin_types.NothingType, scala_types.NothingType)))


@ghost
def Cont(s: "Type", t: "Type", p: "TypeParameter") -> "Bool":
    """type argument s is contained in type argument t at a position declared by p
    (https://kotlinlang.org/spec/type-system.html#type-containment, plus declaration-site variance)"""
    rule("inv", forall(lambda s, t, p: implies(
        not isinstance(s, WildCardType) and not isinstance(t, WildCardType) and p.variance.value == 0
        and (PyEq(s, t) or PyEq(t, s)), Cont(s, t, p))))
    rule("cov", forall(lambda s, t, p: implies(
        not isinstance(s, WildCardType) and not isinstance(t, WildCardType) and p.variance.value == 1 and Sub(s, t),
        Cont(s, t, p))))
    rule("contra", forall(lambda s, t, p: implies(
        not isinstance(s, WildCardType) and not isinstance(t, WildCardType) and p.variance.value == 2 and Sub(t, s),
        Cont(s, t, p))))
    rule("out-plain", forall(lambda s, t, p: implies(
        not isinstance(s, WildCardType) and isinstance(t, WildCardType) and cast(t, "WildCardType").variance.value == 1
        and cast(t, "WildCardType").bound is not None and Sub(s, cast(t, "WildCardType").bound), Cont(s, t, p))))
    rule("in-plain", forall(lambda s, t, p: implies(
        not isinstance(s, WildCardType) and isinstance(t, WildCardType) and cast(t, "WildCardType").variance.value == 2
        and cast(t, "WildCardType").bound is not None and Sub(cast(t, "WildCardType").bound, s), Cont(s, t, p))))
    rule("out-out", forall(lambda s, t, p: implies(
        isinstance(s, WildCardType) and isinstance(t, WildCardType)
        and cast(s, "WildCardType").variance.value == 1 and cast(t, "WildCardType").variance.value == 1
        and cast(s, "WildCardType").bound is not None and cast(t, "WildCardType").bound is not None
        and Sub(cast(s, "WildCardType").bound, cast(t, "WildCardType").bound), Cont(s, t, p))))
    rule("in-in", forall(lambda s, t, p: implies(
        isinstance(s, WildCardType) and isinstance(t, WildCardType)
        and cast(s, "WildCardType").variance.value == 2 and cast(t, "WildCardType").variance.value == 2
        and cast(s, "WildCardType").bound is not None and cast(t, "WildCardType").bound is not None
        and Sub(cast(t, "WildCardType").bound, cast(s, "WildCardType").bound), Cont(s, t, p))))
    rule("proj-cov", forall(lambda s, t, p: implies(
        isinstance(s, WildCardType) and not isinstance(t, WildCardType) and p.variance.value == 1
        and cast(s, "WildCardType").variance.value == 1 and cast(s, "WildCardType").bound is not None
        and Sub(cast(s, "WildCardType").bound, t), Cont(s, t, p))))
    rule("proj-contra", forall(lambda s, t, p: implies(
        isinstance(s, WildCardType) and not isinstance(t, WildCardType) and p.variance.value == 2
        and cast(s, "WildCardType").variance.value == 2 and cast(s, "WildCardType").bound is not None
        and Sub(t, cast(s, "WildCardType").bound), Cont(s, t, p))))
    rule("star", forall(lambda s, t, p: implies(
        isinstance(t, WildCardType) and cast(t, "WildCardType").bound is None
        and not (isinstance(s, WildCardType) and cast(s, "WildCardType").bound is None), Cont(s, t, p))))


@ghost
def Occurs(v: "Type", t: "Type") -> "Bool":
    """the type variable v occurs, at any depth, in the type arguments of the parameterized type / projection t
    (v itself is compared with the IR's own ==).  A recursive definition over the finite type structure."""
    define((isinstance(t, WildCardType) and cast(t, "WildCardType").bound is not None
            and (PyEq(cast(t, "WildCardType").bound, v) or Occurs(v, cast(t, "WildCardType").bound)))
           or (not isinstance(t, WildCardType) and isinstance(t, ParameterizedType) and exists(lambda i: (
               0 <= i and i < len(cast(t, "ParameterizedType").type_args)
               and (PyEq(cast(t, "ParameterizedType").type_args[i], v)
                    or Occurs(v, cast(t, "ParameterizedType").type_args[i]))))))


@ghost
def Sub(S: "Type", T: "Type") -> "Bool":
    """the declarative subtyping relation: least relation closed under these rules"""
    rule("refl", forall(lambda S, T: implies(same(S, T) or PyEq(T, S) or PyEq(S, T), Sub(S, T))))
    rule("bot", forall(lambda S, T: implies(IsNothing(S), Sub(S, T))))
    # (not for a bare generic class: its declared supertypes mention its own type parameters -- rules con-* below)
    rule("nom", forall(lambda S, U, T: implies(not isinstance(S, TypeConstructor) and SupStar(S, U) and Sub(U, T), Sub(S, T))))
    rule("var", forall(lambda S, T: implies(
        isinstance(S, TypeParameter) and cast(S, "TypeParameter").bound is not None
        and Sub(cast(S, "TypeParameter").bound, T), Sub(S, T))))
    rule("wild", forall(lambda S, T: implies(
        isinstance(S, WildCardType) and isinstance(T, WildCardType)
        and cast(S, "WildCardType").variance.value == 1 and cast(T, "WildCardType").variance.value == 1
        and cast(S, "WildCardType").bound is not None and cast(T, "WildCardType").bound is not None
        and Sub(cast(S, "WildCardType").bound, cast(T, "WildCardType").bound), Sub(S, T))))
    rule("args", forall(lambda S, T: implies(
        isinstance(S, ParameterizedType) and isinstance(T, ParameterizedType)
        and (PyEq(cast(S, "ParameterizedType").t_constructor, cast(T, "ParameterizedType").t_constructor))
        and len(cast(S, "ParameterizedType").type_args) == len(cast(T, "ParameterizedType").type_args)
        and forall(lambda i: implies(
            0 <= i and i < len(cast(S, "ParameterizedType").type_args),
            Cont(cast(S, "ParameterizedType").type_args[i], cast(T, "ParameterizedType").type_args[i],
                 cast(S, "ParameterizedType").t_constructor.type_parameters[i]))),
        Sub(S, T))))
    # a bare generic class S (TypeConstructor) stands for all of its instantiations: it is below T when T is (equal to) S
    # or one of its declared supertypes U, and -- if T is an instantiation -- no type parameter of S occurs anywhere in U
    # (otherwise U changes with the instantiation of S)
    rule("con-plain", forall(lambda S, U, T: implies(
        isinstance(S, TypeConstructor) and (same(U, S) or SupStar(S, U)) and PyEq(T, U)
        and not isinstance(T, ParameterizedType), Sub(S, T))))
    rule("con-args", forall(lambda S, U, T: implies(
        isinstance(S, TypeConstructor) and (same(U, S) or SupStar(S, U)) and PyEq(T, U)
        and forall(lambda i: implies(0 <= i and i < len(cast(S, "TypeConstructor").type_parameters),
                                     not Occurs(cast(S, "TypeConstructor").type_parameters[i], U))),
        Sub(S, T))))


# ---------------------------------------------------------------- variance helpers
@contract("src.ir.types.Variance.is_covariant", pure=True)
def _(self: "Variance") -> "Bool":
    ensures("def", result == (self.value == 1))


@contract("src.ir.types.Variance.is_contravariant", pure=True)
def _(self: "Variance") -> "Bool":
    ensures("def", result == (self.value == 2))


@contract("src.ir.types.Variance.is_invariant", pure=True)
def _(self: "Variance") -> "Bool":
    ensures("def", result == (self.value == 0))


@contract("src.ir.types.TypeParameter.is_covariant", pure=True)
def _(self: "TypeParameter") -> "Bool":
    ensures("def", result == (self.variance.value == 1))


@contract("src.ir.types.TypeParameter.is_contravariant", pure=True)
def _(self: "TypeParameter") -> "Bool":
    ensures("def", result == (self.variance.value == 2))


@contract("src.ir.types.TypeParameter.is_invariant", pure=True)
def _(self: "TypeParameter") -> "Bool":
    ensures("def", result == (self.variance.value == 0))


@family("src.ir.types.Type.is_parameterized", pure=True)
def _(self: "Type") -> "Bool":
    ensures("def", result == isinstance(self, ParameterizedType))


# ---------------------------------------------------------------- the judgement
@family("src.ir.types.Type.is_subtype", pure=True)
def _(self: "Type", other: "Type") -> "Bool":
    requires("valid-self", Valid(self))
    requires("valid-other", Valid(other))
    ensures("sound", implies(result, Sub(self, other)))


@family("src.ir.types.Type.get_supertypes")
def _(self: "Type") -> "Set[Type]":
    requires("valid-self", Valid(self))
    ensures("closure", forall(lambda U: implies(smem(result, U), same(U, self) or SupStar(self, U))))
    ensures("valid", forall(lambda U: implies(smem(result, U), Valid(U))))
    local(stack="Seq[Type]", visited="Set[Type]")
    with loop("0"):
        invariant("visited", forall(lambda U: implies(smem(visited, U), (same(U, self) or SupStar(self, U)) and Valid(U))))
        invariant("stack", forall(lambda U: implies(mem(stack, U), (same(U, self) or SupStar(self, U)) and Valid(U))))
    with loop("0.0"):
        invariant("visited", forall(lambda U: implies(smem(visited, U), (same(U, self) or SupStar(self, U)) and Valid(U))))
        invariant("stack", forall(lambda U: implies(mem(stack, U), (same(U, self) or SupStar(self, U)) and Valid(U))))
        invariant("source", (same(source, self) or SupStar(self, source)) and Valid(source))


@contract("src.ir.types._type_var_occurs_in", pure=True)
def _(t_var: "Type", t: "Type") -> "Bool":
    requires("valid", Valid(t))
    ensures("def", result == Occurs(t_var, t))


@contract("src.ir.types.TypeConstructor.is_subtype", pure=True)
def _(self: "TypeConstructor", other: "Type") -> "Bool":
    requires("valid-self", Valid(self))
    requires("valid-other", Valid(other))
    ensures("sound", implies(result, Sub(self, other)))
    local(supertypes="Set[Type]", matched_supertype="Opt[Type]")
    with loop("0"):
        invariant("match", implies(matched_supertype is not None,
                                   (same(matched_supertype, self) or SupStar(self, matched_supertype))
                                   and PyEq(other, matched_supertype) and Valid(matched_supertype)))


@contract("src.ir.types._is_type_arg_contained", pure=True)
def _(t: "Type", other: "Type", type_param: "TypeParameter") -> "Bool":
    requires("valid-t", Valid(t))
    requires("valid-other", Valid(other))
    requires("valid-param", Valid(type_param))
    requires("no-conflict", NoConflict(t, type_param))
    ensures("sound", implies(result, Cont(t, other, type_param)))


@contract("src.ir.types.ParameterizedType.is_subtype", pure=True)
def _(self: "ParameterizedType", other: "Type") -> "Bool":
    requires("valid-self", Valid(self))
    requires("valid-other", Valid(other))
    ensures("sound", implies(result, Sub(self, other)))
    with loop("0"):
        invariant("args", forall(lambda j: implies(0 <= j and j < _i0, Cont(
            self.type_args[j], cast(other, "ParameterizedType").type_args[j], self.t_constructor.type_parameters[j]))))


# ---------------------------------------------------------------- assignability (Java / Groovy boxing)
@ghost
def Widen(S: "Type", T: "Type") -> "Bool":
    """JLS 5.1.7/5.1.8 + reference widening for the boxed numerics: same numeric kind modulo boxing/unboxing, or Number"""
    define((isinstance(S, java_types.NumberType) and (class_is(T, "java_types.NumberType") or same_class(S, T)))
           or (isinstance(S, groovy_types.NumberType) and (class_is(T, "groovy_types.NumberType") or same_class(S, T))))


@family("src.ir.types.Type.is_assignable", pure=True)
def _(self: "Type", other: "Type") -> "Bool":
    requires("valid-self", Valid(self))
    requires("valid-other", Valid(other))
    ensures("sound", implies(result, Sub(self, other) or Widen(self, other)))


@contract("src.ir.types.Type.not_related", pure=True)
def _(self: "Type", other: "Type") -> "Bool":
    requires("valid-self", Valid(self))
    requires("valid-other", Valid(other))
    ensures("def", result == (not (self.is_subtype(other) or other.is_subtype(self))))


@contract("src.ir.types.TypeParameter.has_bound_of", pure=True, trusted=True)
def _(self: "TypeParameter", other: "Type") -> "Bool":
    """not verified here (calls get_type_variables(None)); only its obvious consequence is assumed"""
    ensures("has-bound", implies(result, self.bound is not None))


# ---------------------------------------------------------------- assignability of instantiations (Java primitive arrays)
global_var("src.ir.java_types.Array", "TypeConstructor")


@ghost
def SameJavaArray(S: "Type", T: "Type") -> "Bool":
    """both are instantiations of (a class equal to) the Java array class with == element types: `int[]` to `int[]`"""
    define(isinstance(S, ParameterizedType) and isinstance(T, ParameterizedType)
           and PyEq(cast(S, "ParameterizedType").t_constructor, java_types.Array)
           and PyEq(cast(T, "ParameterizedType").t_constructor, java_types.Array)
           and len(cast(S, "ParameterizedType").type_args) >= 1 and len(cast(T, "ParameterizedType").type_args) >= 1
           and PyEq(cast(S, "ParameterizedType").type_args[0], cast(T, "ParameterizedType").type_args[0]))


@contract("src.ir.types.ParameterizedType.is_assignable", pure=True)
def _(self: "ParameterizedType", other: "Type") -> "Bool":
    """a value of an instantiation may be assigned where its type is a subtype, or -- Java primitive arrays -- where both
    are arrays with the same element type"""
    requires("valid-self", Valid(self))
    requires("valid-other", Valid(other))
    ensures("sound", implies(result, Sub(self, other) or SameJavaArray(self, other)))
