"""Contracts of the binary dump / read-back of programs (property C13): src/utils.py dump_program / load_program, the
driver's save_program and the --replay read-back in ProgramProcessor.  Parsed by pyvc, never executed.

The pickle protocol itself is an external library: `Pickled(p)` / `Unpickled(b)` are uninterpreted, and the round-trip law
Unpickled(Pickled(p)) ~ p is TRUSTED (checked only by the bounded part, on generated / erased / overwritten programs).
What is proved is the glue around it, for every path and program: the program object handed to dump_program -- itself, not a
copy or a part -- is what is pickled, in binary write mode, into exactly the file named; load_program unpickles exactly the
bytes of the file named, opened in binary read mode, and returns that object unchanged."""
declare_class("BinFile")
fields("BinFile", path="Str", mode="Str")
global_var("src.utils.__disk", "Map[Str,Any]")     # ghost: binary content of the files written in this run
bound(obj="Any", bts="Any", fp="Str")


@ghost
def Pickled(obj: "Any") -> "Any":
    """the byte string pickle.dump writes for obj (uninterpreted)"""
    pass


@ghost
def Unpickled(bts: "Any") -> "Any":
    """the object pickle.load builds from a byte string (uninterpreted)"""
    pass


@external("builtins.open")
def _(path: "Str", mode: "Str") -> "BinFile":
    ensures("handle", same(result.path, path) and same(result.mode, mode))


@external("pickle.dump")
def _(obj: "Any", file: "BinFile") -> "None":
    requires("binary-write-mode", file.mode == 'wb')
    modifies("__disk")
    ensures("written", file.path in __disk and same(__disk[file.path], Pickled(obj)))
    ensures("others-kept", forall(lambda fp: implies(fp != file.path, (fp in __disk) == (fp in old(__disk))
                                                     and implies(fp in old(__disk), same(__disk[fp], old(__disk)[fp])))))


@external("pickle.load")
def _(file: "BinFile") -> "Any":
    requires("binary-read-mode", file.mode == 'rb')
    ensures("read", implies(file.path in __disk, same(result, Unpickled(__disk[file.path]))))


@contract("src.utils.dump_program")
def _(path: "Str", program: "Any") -> "None":
    modifies("__disk")
    ensures("the-program-itself-into-that-file", path in __disk and same(__disk[path], Pickled(program)))
    ensures("no-other-file", forall(lambda fp: implies(fp != path, (fp in __disk) == (fp in old(__disk))
                                                       and implies(fp in old(__disk), same(__disk[fp], old(__disk)[fp])))))


@contract("src.utils.load_program")
def _(path: "Str") -> "Any":
    ensures("what-that-file-holds", implies(path in __disk, same(result, Unpickled(__disk[path]))))
    ensures("disk-untouched", map_eq(__disk, old(__disk)))


# ---------------------------------------------------------------- the two call sites (slice mode)
@profile("replay", slice=True)
def _():
    modifies(".*")


@contract("hephaestus.save_program")
def _(program: "Any", program_str: "Any", program_file: "Str") -> "None":
    """a stored test case = source text + binary dump of THE SAME program, next to each other (<file> and <file>.bin)"""
    use_profile("replay")
    site_call("dump_program", "the-program-whose-text-is-saved", same(arg1, program))
    site_call("dump_program", "next-to-the-source-file", arg0 == program_file + ".bin")
    site_call("save_text", "text-of-this-program", same(arg0, program_file) and same(arg1, program_str))


load_module("src.modules.processor")
declare_class("ReplayArgs")
fields("ReplayArgs", replay="Opt[Str]", debug="Bool")
fields("ProgramProcessor", args="ReplayArgs")


@contract("src.modules.processor.ProgramProcessor.get_program")
def _(self: "ProgramProcessor") -> "Any":
    """--replay: the program is read from exactly the file given on the command line and handed on unchanged"""
    use_profile("replay")
    site_call("load_program", "the-file-given-with-replay", same(arg0, self.args.replay) and self.args.replay is not None)
    site_return("(load_program(self.args.replay), True)", "read-back-handed-on-unchanged", truthy(self.args.replay))
    site_return("self.generate_program()", "only-without-replay", not truthy(self.args.replay))
