# Hand-written frame VCs for perform_type_substitution / TypeConstructor.new (C07 "mutates nothing")
from z3 import *
import time
O=DeclareSort('Obj'); L=DeclareSort('SeqObj')
A_=ArraySort(O,BoolSort())
alloc0,alloc1,alloc2,alloc3=Consts('alloc0 alloc1 alloc2 alloc3',A_)
FL=ArraySort(O,L)   # list-valued attribute heaps
sup0,sup1,sup2=Consts('sup0 sup1 sup2',FL); tps0,tps1=Consts('tps0 tps1',FL)
FO=ArraySort(O,O); tcon0,tcon1=Consts('tcon0 tcon1',FO)
x,o=Consts('x o',O)
def prove(name,hyps,goal,timeout=5000):
    s=Solver(); s.set('timeout',timeout); s.set('auto_config',False); s.set('smt.mbqi',False)
    s.add(*hyps); s.add(Not(goal)); t=time.time(); r=s.check(); print('%-50s %s %.2fs'%(name,r,time.time()-t))
etype,cp,new_sups,new_tps=Const('etype',O),Const('cp',O),Const('new_sups',L),Const('new_tps',L)
# perform_type_substitution(etype,...):  ... etype = deepcopy(etype); etype.type_parameters = type_params; etype.supertypes = supertypes
pre=[alloc0[etype]]
deepcopy=[Not(alloc0[cp]), alloc1==Store(alloc0,cp,True)]      # result fresh
# frame obligation at each write `t.f = v`: not old(alloc)[t]
prove('perform_type_substitution/frame write1 (deepcopy)',pre+deepcopy,Not(alloc0[cp]))
prove('perform_type_substitution/frame write1 MUTANT no deepcopy',pre,Not(alloc0[etype]))
# post: forall o in old alloc: supertypes/type_parameters unchanged
post_h=pre+deepcopy+[tps1==Store(tps0,cp,new_tps), sup1==Store(sup0,cp,new_sups)]
prove('perform_type_substitution/post unchanged',post_h,ForAll([o],Implies(alloc0[o],And(sup1[o]==sup0[o],tps1[o]==tps0[o]))))
# TypeConstructor.new: type_con = perform_type_substitution(self,..) [contract: fresh, unchanged old]; etype = ParameterizedType(type_con,args) [contract: etype fresh, etype.t_constructor fresh (deepcopy in __init__)]; etype.t_constructor.supertypes = old_supertypes
self_,type_con,et,tc2=Consts('self type_con et tc2',O)
h=[alloc0[self_], Not(alloc0[type_con]), alloc1==Store(alloc0,type_con,True),
   ForAll([o],Implies(alloc0[o],sup1[o]==sup0[o]),patterns=[sup1[o]]),
   Not(alloc1[et]), Not(alloc1[tc2]), et!=tc2, alloc2==Store(Store(alloc1,et,True),tc2,True), tcon1[et]==tc2,
   ForAll([o],Implies(alloc1[o],sup2[o]==sup1[o]),patterns=[sup2[o]])]
prove('TypeConstructor.new/frame write (t_constructor.supertypes)',h,Not(alloc0[tcon1[et]]))
# mutant: ParameterizedType.__init__ without deepcopy => t_constructor == type_con (fresh wrt alloc0 still!) ; mutant2: perform_type_substitution w/o deepcopy => type_con == self
h2=[alloc0[self_], type_con==self_, alloc1==alloc0, Not(alloc1[et]), tcon1[et]==type_con]
prove('TypeConstructor.new/frame MUTANT chain (no copies at all)',h2,Not(alloc0[tcon1[et]]))
