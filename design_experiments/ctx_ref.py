import sys, random
sys.argv=['x']; sys.path.insert(0,'/repo')
from collections import OrderedDict
import src.ir.ast
from src.ir.context import Context, get_decl
KINDS=['types','funcs','lambdas','vars','classes','decls']
class D:   # identity-compared declaration
    def __init__(s,n): s.n=n
    def __repr__(s): return 'D%d'%s.n
class Ref:
    def __init__(s): s.ctx={}; s.rev={}
    def _add(s,ns,k,name,v):
        if ns not in s.ctx: s.ctx[ns]={kk:OrderedDict() for kk in KINDS}
        s.ctx[ns][k][name]=v; s.rev[id(v)]=ns
    def _rem(s,ns,k,name):
        if ns in s.ctx and name in s.ctx[ns][k]:
            v=s.ctx[ns][k].pop(name); s.rev.pop(id(v),None)
    def add(s,kind,ns,name,v):
        s._add(ns,kind,name,v)
        if kind in('funcs','vars','classes'): s._add(ns,'decls',name,v)
    def rem(s,kind,ns,name):
        s._rem(ns,kind,name)
        if kind in('funcs','vars','classes'): s._rem(ns,'decls',name)
    def current(s,ns,kind,none): 
        d=s.ctx.get(ns,{}).get(kind,{}); return [(k,v) for k,v in d.items() if none or v is not None]
    def path(s,ns,kind,none):
        res={}
        for i in range(1,len(ns)+1):
            p=ns[:i]
            for k,v in s.ctx.get(p,{}).get(kind,{}).items(): res[k]=v   # inner shadows outer
        return {k:v for k,v in res.items() if none or v is not None}
    def reach(s,root):
        seen=[root]; st=[root]
        while st:
            p=st.pop()
            for kind in('funcs','classes'):
                for name in s.ctx.get(p,{}).get(kind,{}):
                    q=p+(name,)
                    if q not in seen: seen.append(q); st.append(q)
        return seen
    def glob(s,ns,kind,none):
        names={}
        for p in s.reach((ns[0],)):
            for k,v in s.ctx.get(p,{}).get(kind,{}).items(): names.setdefault(k,[]).append(v)
        return names
    def lookup(s,ns,name):
        while len(ns):
            v=s.ctx.get(ns,{}).get('decls',{}).get(name)
            if v: return ns,v
            ns=ns[:-1]
        return None
ADD={'types':'add_type','funcs':'add_func','lambdas':'add_lambda','vars':'add_var','classes':'add_class'}
REM={'types':'remove_type','funcs':'remove_func','lambdas':'remove_lambda','vars':'remove_var','classes':'remove_class'}
GET={'types':'get_types','funcs':'get_funcs','lambdas':'get_lambdas','vars':'get_vars','classes':'get_classes','decls':'get_declarations'}
def run(seed,steps=60,collide=False):
    r=random.Random(seed); c=Context(); m=Ref(); names=['a','b','c','f','g','K']; cnt=0
    nss=[('global',),('global','f'),('global','K'),('global','K','g'),('global','f','a'),('global','zz')]
    decls=[]
    for step in range(steps):
        op=r.random(); ns=r.choice(nss); kind=r.choice(list(ADD)); name=r.choice(names)
        if not collide: name=name+'_'+kind   # avoid cross-kind collisions
        if op<0.5:
            cnt+=1; v=D(cnt) if r.random()>0.1 else None
            if v is not None: decls.append(v)
            getattr(c,ADD[kind])(ns,name,v); m.add(kind,ns,name,v)
        elif op<0.7:
            getattr(c,REM[kind])(ns,name); m.rem(kind,ns,name)
        # queries
        for q in nss+[('global','f','a','deep')]:
            for k in KINDS:
                for none in(False,True):
                    got=getattr(c,GET[k])(q,only_current=True,none=none)
                    if list(got.items())!=m.current(q,k,none): return ('current',seed,step,q,k,none,list(got.items()),m.current(q,k,none))
                    got=getattr(c,GET[k])(q,none=none)
                    exp=m.path(q,k,none) if len(q)>1 else dict(m.current(q,k,none))
                    if dict(got)!=exp: return ('path',seed,step,q,k,none,dict(got),exp)
                    got=getattr(c,GET[k])(q,glob=True,none=none)
                    g=m.glob(q,k,True)
                    expkeys={kk for kk,vs in g.items() if none or any(v is not None for v in vs)}
                    # value must be one of the reachable entries; key set: code filters None AFTER merging
                    if not all(any(got[kk] is v for v in g[kk]) for kk in got): return ('glob-val',seed,step,q,k)
                    if none and set(got)!=set(g): return ('glob-keys',seed,step,q,k,set(got),set(g))
            for nm in names:
                n2=nm if collide else nm+'_vars'
                a=get_decl(c,q,n2); b=m.lookup(q,n2)
                if (a is None)!=(b is None) or (a and (a[0]!=b[0] or a[1] is not b[1])): return ('lookup',seed,step,q,n2,a,b)
        for d in decls:
            if c.get_namespace(d)!=m.rev.get(id(d)): return ('rev',seed,step,d,c.get_namespace(d),m.rev.get(id(d)))
    return None
bad=0
for seed in range(300):
    x=run(seed)
    if x: bad+=1; print(x) if bad<5 else None
print('no-collision runs bad:',bad)
bad=0
for seed in range(300):
    x=run(seed,collide=True)
    if x: bad+=1; print(x) if bad<4 else None
print('collision runs bad:',bad)
