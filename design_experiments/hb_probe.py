import sys; sys.argv=['x']; sys.path.insert(0,'/repo')
from src.ir import types as tp
Y=tp.TypeParameter("Y")
C=tp.TypeConstructor("C",[tp.TypeParameter("A")])
B=tp.TypeConstructor("B",[tp.TypeParameter("A")])
X=tp.TypeParameter("X",bound=C.new([Y]))
U=tp.TypeParameter("U",bound=B.new([X]))
try:
    print(U.has_bound_of(X))
except Exception as e:
    print(type(e).__name__, e)
