import random as _r; _r.seed(12345)
import sys, pickle, io, copy
ARGV=list(sys.argv); sys.argv=['x']; sys.path.insert(0,'/repo')
from src import utils
from src.generators.generator import Generator
from src.translators.java import JavaTranslator
from src.translators.kotlin import KotlinTranslator
from src.translators.groovy import GroovyTranslator
from src.translators.scala import ScalaTranslator
from src.transformations.type_erasure import TypeErasure
from src.transformations.type_overwriting import TypeOverwriting
TR={'java':JavaTranslator,'kotlin':KotlinTranslator,'groovy':GroovyTranslator,'scala':ScalaTranslator}
bad=0; n=0
for lang in TR:
    for seed in range(int(ARGV[1])):
        utils.random.r.seed(seed); utils.random.reset_word_pool()
        p=Generator(language=lang).generate()
        b=pickle.dumps(p); q=pickle.loads(b); b2=pickle.dumps(q); q2=pickle.loads(b2); b3=pickle.dumps(q2)
        t=TR[lang]('src.a')
        s_p=utils.translate_program(t,p); s_p2=utils.translate_program(t,p)
        s_q=utils.translate_program(TR[lang]('src.a'),q)
        n+=1
        if s_p!=s_q: bad+=1; print('C13 translate differs',lang,seed)
        if s_p!=s_p2: bad+=1; print('C11 same translator twice differs',lang,seed)
        if b2!=b3: print('dump not stable (bytes)',lang,seed, len(b),len(b2),len(b3))
        # mutation with same random choices
        st=utils.random.r.getstate()
        te=TypeErasure(p,lang,None,{}); te.transform(); s1=utils.translate_program(TR[lang]('src.a'),te.result())
        utils.random.r.setstate(st)
        te=TypeErasure(q,lang,None,{}); te.transform(); s2=utils.translate_program(TR[lang]('src.a'),te.result())
        if s1!=s2: bad+=1; print('C13 erasure differs',lang,seed)
        # other language translators on same program (C11 cross-language)
        for l2 in TR:
            if l2!=lang:
                try: utils.translate_program(TR[l2]('src.a'),p)
                except Exception as e: pass
        s_p3=utils.translate_program(TR[lang]('src.a'),te.result()); 
print('n',n,'bad',bad)
