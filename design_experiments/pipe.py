import random as _r; _r.seed(12345)
import sys, time, traceback, copy, pickle
ARGV=list(sys.argv); sys.argv=['x']
sys.path.insert(0,'/repo')
from src import utils
from src.generators.generator import Generator
from src.generators.config import cfg
from src.translators.java import JavaTranslator
from src.translators.kotlin import KotlinTranslator
from src.translators.groovy import GroovyTranslator
from src.translators.scala import ScalaTranslator
from src.transformations.type_erasure import TypeErasure
from src.transformations.type_overwriting import TypeOverwriting
TR={'java':JavaTranslator,'kotlin':KotlinTranslator,'groovy':GroovyTranslator,'scala':ScalaTranslator}
sys.setrecursionlimit(3000)
def run(lang, seed, stages=True):
    utils.random.r.seed(seed)
    utils.random.reset_word_pool()
    stage='gen'
    try:
        g=Generator(language=lang)
        p=g.generate()
        stage='tr0'
        t=TR[lang]('src.pkg')
        s0=utils.translate_program(t,p)
        stage='erase'
        te=TypeErasure(p,lang,None,{'timeout':600})
        te.transform(); p1=te.result()
        stage='tr1'
        s1=utils.translate_program(t,p1)
        stage='overwrite'
        to=TypeOverwriting(p1,lang,None,{'timeout':600})
        to.transform(); p2=to.result()
        stage='tr2'
        s2=utils.translate_program(t,p2)
        return None
    except RecursionError as e:
        return (stage,'RecursionError','')
    except Exception as e:
        tb=traceback.extract_tb(e.__traceback__)
        return (stage,type(e).__name__, str(e)[:80]+' @ '+ ' < '.join('%s:%d'%(f.filename.split('/')[-1],f.lineno) for f in tb[-3:]))
if __name__=='__main__':
    lang=ARGV[1]; lo=int(ARGV[2]); hi=int(ARGV[3])
    t0=time.time(); bad=0
    for seed in range(lo,hi):
        r=run(lang,seed)
        if r:
            bad+=1; print(lang,seed,r,flush=True)
    print('DONE',lang,lo,hi,'bad',bad,'time',round(time.time()-t0,1))
