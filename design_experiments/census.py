import ast, sys, collections
targets = {
 '/repo/src/graph_utils.py': None,
 '/repo/src/ir/context.py': None,
 '/repo/src/ir/types.py': None,
 '/repo/src/compilers/base.py': None, '/repo/src/compilers/groovy.py': None,
 '/repo/src/ir/type_utils.py': ['_find_types','find_subtypes','find_supertypes','to_type','find_irrelevant_type','_get_available_types','_get_type_arg_variance','update_type_var_bound_rec','_compute_type_variable_assignments','instantiate_type_constructor','instantiate_parameterized_function','_update_type_var_map','unify_types','choose_type'],
 '/repo/hephaestus.py': ['check_oracle','update_stats','get_batches','stop_condition','_run','save_stats','gen_program'],
 '/repo/src/transformations/type_erasure.py': None, '/repo/src/transformations/type_overwriting.py': None,
 '/repo/src/utils.py': ['prefix_lst','lst_get'],
}
tot=collections.Counter(); calls=collections.Counter()
for f,names in targets.items():
    tree=ast.parse(open(f).read())
    for node in ast.walk(tree):
        if isinstance(node,(ast.FunctionDef,)) and (names is None or node.name in names):
            for n in ast.walk(node):
                tot[type(n).__name__]+=1
                if isinstance(n,ast.Call):
                    fn=n.func
                    if isinstance(fn,ast.Name): calls[fn.id]+=1
                    elif isinstance(fn,ast.Attribute): calls['.'+fn.attr]+=1
print(sorted(tot.items(), key=lambda x:-x[1]))
print()
print(sorted(calls.items(), key=lambda x:-x[1]))
