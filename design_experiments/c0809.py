import random as _r; _r.seed(12345)
import sys, collections
ARGV=list(sys.argv); sys.argv=['x']; sys.path.insert(0,'/repo')
from src import utils
from src.generators.generator import Generator
from src.ir import types as tp, type_utils as tu, ast
stats=collections.Counter(); examples={}
def note(k, ex):
    stats[k]+=1
    examples.setdefault(k, ex)
_fs=tu._find_types
def find_types(etype, types, get_subtypes, include_self, bound=None, concrete_only=False, ignore_variance=False):
    res=_fs(etype, types, get_subtypes, include_self, bound, concrete_only, ignore_variance)
    stats['find_types calls']+=1
    for r in res:
        if concrete_only and r.is_type_constructor(): note('FT: constructor returned with concrete_only', (str(etype),str(r)))
        try:
            if get_subtypes:
                if not r.is_subtype(etype) and r != etype: note('FT: result not subtype', (str(etype), str(r)))
            else:
                if not etype.is_subtype(r) and r!=etype: note('FT: result not supertype', (str(etype), str(r)))
        except TypeError as e:
            note('FT: abstract in result', (str(etype), str(r)))
    if (etype in res) != bool(include_self): note('FT: include_self mismatch', (str(etype), include_self, [str(x) for x in res][:5]))
    return res
tu._find_types=find_types
_itc=tu.instantiate_type_constructor
def itc(type_constructor, types, only_regular=True, type_var_map=None, variance_choices=None, enable_pecs=True, disable_variance_functions=False, disable_variance=False):
    pre=dict(type_var_map or {})
    t,m=_itc(type_constructor, types, only_regular, type_var_map, variance_choices, enable_pecs, disable_variance_functions, disable_variance)
    stats['itc calls']+=1
    if len(t.type_args)!=len(type_constructor.type_parameters): note('ITC: arity',str(t))
    for p,a in zip(t.t_constructor.type_parameters,t.type_args):
        if a.is_primitive(): note('ITC: primitive arg',(str(t)))
        if a.is_type_constructor(): note('ITC: bare constructor arg',str(t))
        if p.bound is not None:
            b=tp.substitute_type(p.bound,m)
            x=a
            if a.is_wildcard():
                if a.is_covariant(): x=a.bound
                else: continue
            try:
                if not x.is_subtype(b): note('ITC: arg outside bound',(str(type_constructor),str(t),str(b)))
            except TypeError: note('ITC: typeerror',(str(t),))
        k=next((kk for kk in pre if kk==p),None)
        if k is not None:
            want=pre[k]
            if not (a==want or (a.is_wildcard() and a.bound==want)): note('ITC: preassign not kept',(str(type_constructor),str(want),str(a)))
    return t,m
tu.instantiate_type_constructor=itc
_fit=tu.find_irrelevant_type
def fit(etype, types, factory):
    r=_fit(etype, types, factory)
    stats['fit calls']+=1
    if r is not None:
        e=etype
        if isinstance(e,tp.TypeParameter) and e.bound is not None: e=e.bound
        try:
            if r.is_subtype(e) or e.is_subtype(r): note('FIT: related', (str(etype),str(r)))
        except TypeError: note('FIT: typeerror',(str(etype),str(r)))
    elif etype==factory.get_any_type(): stats['fit top none']+=1
    return r
tu.find_irrelevant_type=fit
from src.transformations.type_erasure import TypeErasure
from src.transformations.type_overwriting import TypeOverwriting
N=int(ARGV[1]) if len(ARGV)>1 else 20
for lang in ['java','kotlin','groovy','scala']:
    for seed in range(N):
        utils.random.r.seed(seed); utils.random.reset_word_pool()
        try:
            p=Generator(language=lang).generate()
            to=TypeOverwriting(p,lang,None,{}); to.transform()
        except Exception as e:
            note('EXC '+type(e).__name__, (lang,seed,str(e)[:80]))
for k,v in sorted(stats.items()): print(v,k, examples.get(k,''))
