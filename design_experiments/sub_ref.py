import random as _r; _r.seed(1)
import sys, itertools
sys.argv=['x']; sys.path.insert(0,'/repo')
from src.ir import types as tp, kotlin_types as kt

Any_ = kt.Any
# class table
A = tp.SimpleClassifier("A", [Any_])
B = tp.SimpleClassifier("B", [A])
C = tp.SimpleClassifier("C", [B])
D = tp.SimpleClassifier("D", [A])
T = tp.TypeParameter("T"); To = tp.TypeParameter("T", tp.Covariant); Ti = tp.TypeParameter("T", tp.Contravariant)
G = tp.TypeConstructor("G", [T], [Any_])
Gco = tp.TypeConstructor("Gco", [To], [Any_])
Gin = tp.TypeConstructor("Gin", [Ti], [Any_])
T2 = tp.TypeParameter("T")
H = tp.TypeConstructor("H", [T2], [G.new([T2])])      # H<T> : G<T>
T3 = tp.TypeParameter("T")
HB = tp.SimpleClassifier("HB", [G.new([B])])            # HB : G<B>
T4 = tp.TypeParameter("X", tp.Covariant)
Hco = tp.TypeConstructor("Hco", [T4], [Gco.new([T4])])  # Hco<out X> : Gco<X>
simple = [A,B,C,D,HB]
cons = [G,Gco,Gin,H,Hco]
def level(base):
    out=list(base)
    for c in cons:
        for a in base:
            out.append(c.new([a]))
            out.append(c.new([tp.WildCardType(a, tp.Covariant)]))
            out.append(c.new([tp.WildCardType(a, tp.Contravariant)]))
    return out
L1 = level(simple)
L2 = level([A,B,C] + [G.new([B]), Gco.new([B]), Gin.new([B]), G.new([tp.WildCardType(B,tp.Covariant)]), H.new([B])])
universe = L1 + [t for t in L2 if t not in L1]
print(len(universe))

# reference relation
decl = {'A':([],[None]), }
def class_supers(t):
    """declared supertypes of t with substitution, computed independently"""
    if isinstance(t, tp.ParameterizedType):
        con = {c.name:c for c in cons}[t.name]
        m = {p.name:a for p,a in zip(con.type_parameters, t.type_args)}
        return [subst(s,m) for s in con.supertypes]
    if isinstance(t, tp.SimpleClassifier):
        return list(t.supertypes)
    return []
def subst(t,m):
    if isinstance(t, tp.TypeParameter): return m.get(t.name,t)
    if isinstance(t, tp.ParameterizedType):
        con = {c.name:c for c in cons}[t.name]
        return ('P', t.name, tuple(subst(a,m) for a in t.type_args))
    if isinstance(t, tp.WildCardType): return ('W', t.variance.value, subst(t.bound,m))
    return t
def norm(t):
    if isinstance(t, tuple):
        if t[0]=='P': return ('P',t[1],tuple(norm(a) for a in t[2]))
        if t[0]=='W': return ('W',t[1],norm(t[2]))
    if isinstance(t, tp.ParameterizedType): return ('P', t.name, tuple(norm(a) for a in t.type_args))
    if isinstance(t, tp.WildCardType): return ('W', t.variance.value, norm(t.bound))
    if isinstance(t, tp.SimpleClassifier): return ('S', t.name)
    if isinstance(t, tp.Builtin): return ('B', type(t).__name__)
    raise Exception(t)
CONS = {c.name:c for c in cons}
SIMPLE = {c.name:c for c in simple}
def supers(n):
    if n[0]=='S':
        return [norm(s) for s in SIMPLE[n[1]].supertypes]
    if n[0]=='P':
        con=CONS[n[1]]; m={p.name:a for p,a in zip(con.type_parameters,n[2])}
        return [nsubst(norm_tv(s),m) for s in con.supertypes]
    return []
def norm_tv(t):
    if isinstance(t, tp.TypeParameter): return ('V', t.name)
    if isinstance(t, tp.ParameterizedType): return ('P', t.name, tuple(norm_tv(a) for a in t.type_args))
    if isinstance(t, tp.WildCardType): return ('W', t.variance.value, norm_tv(t.bound))
    return norm(t)
def nsubst(n,m):
    if n[0]=='V': return m[n[1]]
    if n[0]=='P':
        args=[]
        for a in n[2]:
            r=nsubst(a,m)
            args.append(r)
        return ('P',n[1],tuple(args))
    if n[0]=='W':
        r=nsubst(n[2],m)
        if r[0]=='W':  # projection of projection: keep inner if same variance
            return r
        return ('W',n[1],r)
    return n
from functools import lru_cache
@lru_cache(None)
def sub(s,t):
    if s==t: return True
    if t==('B','AnyType'): return True
    for u in supers(s):
        if sub(u,t): return True
    if s[0]=='P' and t[0]=='P' and s[1]==t[1]:
        con=CONS[s[1]]
        rs=[contained(a,b,p.variance.value) for a,b,p in zip(s[2],t[2],con.type_parameters)]
        if any(r is None for r in rs): raise TypeError('ood')
        return all(rs)
    return False
def contained(a,b,v):
    # v: 0 inv 1 cov 2 contra ; W variance 1=out 2=in
    def proj(x):
        if x[0]=='W': return (x[1], x[2])
        return (v, x)   # declared variance acts as projection; 0 = exact
    va,xa = proj(a); vb,xb = proj(b)
    if a[0]=='W' and v!=0 and a[1]!=v: return None  # conflicting projection: outside domain
    if b[0]=='W' and v!=0 and b[1]!=v: return None
    if vb==0: return va==0 and xa==xb
    if vb==1: return va in (0,1) and sub(xa,xb)
    if vb==2: return va in (0,2) and sub(xb,xa)
mism=0; tot=0; dom=0
for s in universe:
    for t in universe:
        ns,nt=norm(s),norm(t)
        try:
            ref=sub(ns,nt)
        except TypeError:
            ref=None
        real=s.is_subtype(t)
        tot+=1
        if ref is None: continue
        dom+=1
        if bool(ref)!=bool(real):
            mism+=1
            if mism<=25: print('MISMATCH real=%s ref=%s : %s  <:  %s'%(real,ref,s,t))
print('pairs',tot,'in-domain',dom,'mismatches',mism)
