import sys, os, shutil, tempfile
sys.argv=['hephaestus.py','--language','java','--bugs','/tmp/scratch/c15/bugs','--name','s1','--iterations','2','--batch','2']
sys.path.insert(0,'/repo')
import hephaestus as h
from collections import OrderedDict
td=h.cli_args.test_directory
def mk(pid, files):
    os.makedirs(os.path.join(td,'tmp',str(pid)),exist_ok=True)
    open(os.path.join(td,'tmp',str(pid),'Main.java'),'w').write('x')
def scenario(name, oracles, out):
    d=tempfile.mkdtemp(); os.makedirs(os.path.join(d,'src'))
    h.run_command=lambda args: (True,out)
    for pid in oracles: mk(pid,None)
    try:
        r=h.check_oracle(d, oracles); print(name,'->',{k:v['error'] for k,v in r[0].items()})
    except Exception as e:
        print(name,'EXC',type(e).__name__,e)
# both mismatches for one pid
P=h.ProgramRes
o=OrderedDict({1:P(False,{'error':'inj','programs':{'/x/src/a/Main.java':True,'/x/src/b/Main.java':False}})})
scenario('double', o, "/x/src/a/Main.java:3: error: boom\n")
# crash with a tool-failed program in batch
o=OrderedDict({2:P(True,{'error':'gen failed','program':None}), 3:P(False,{'error':None,'programs':{'/x/src/c/Main.java':True}})})
scenario('crash', o, "java.lang.NullPointerException\n\tat com.sun.tools\n")
