import random as _r; _r.seed(12345)
import sys, time, traceback
ARGV=list(sys.argv); sys.argv=['x']
sys.path.insert(0,'/repo')
from src import utils
from src.generators.generator import Generator
from src.generators.config import cfg
from src.ir import ast, types as tp
from src.ir.node import Node

def walk_types(t, seen, out, path):
    if t is None or id(t) in seen: return
    seen.add(id(t))
    out.append((t,path))
    if isinstance(t, tp.ParameterizedType):
        for a in t.type_args: walk_types(a, seen, out, path+'/arg')
        for p in t.t_constructor.type_parameters: walk_types(p, seen, out, path+'/tcparam')
    if isinstance(t, tp.TypeConstructor):
        for p in t.type_parameters: walk_types(p, seen, out, path+'/tparam')
    if isinstance(t, (tp.TypeParameter, tp.WildCardType)):
        walk_types(t.bound, seen, out, path+'/bound')
    for s in getattr(t,'supertypes',[]) or []:
        walk_types(s, seen, out, path+'/super')

def node_types(n):
    res=[]
    for k,v in vars(n).items():
        if isinstance(v, tp.Type): res.append((k,v))
        elif isinstance(v,(list,tuple)):
            for x in v:
                if isinstance(x,tp.Type): res.append((k,x))
    return res

def walk(p):
    out=[]; seen=set(); seen_nodes=set()
    stack=list(p.context.get_declarations(('global',),only_current=True).values())
    nodes=[]
    while stack:
        n=stack.pop()
        if id(n) in seen_nodes or n is None: continue
        seen_nodes.add(id(n)); nodes.append(n)
        if isinstance(n, tp.Type):
            walk_types(n, seen, out, 'tparamdecl'); continue
        for k,t in node_types(n):
            walk_types(t, seen, out, type(n).__name__+'.'+k)
        try:
            stack.extend(n.children())
        except Exception as e:
            pass
        if isinstance(n, ast.Is): stack.append(n.lexpr)
    return nodes,out

def run(lang, seed):
    utils.random.r.seed(seed)
    utils.random.reset_word_pool()
    g=Generator(language=lang)
    return g.generate()

if __name__=='__main__':
    mode=ARGV[1] if len(ARGV)>1 else 'usv'
    if mode=='usv': cfg.dis.use_site_variance=True
    if mode=='contra': cfg.dis.use_site_contravariance=True
    if mode=='bounded': cfg.prob.bounded_type_parameters=0
    if mode=='pfun': cfg.prob.parameterized_functions=0
    N=int(ARGV[2]) if len(ARGV)>2 else 40
    for lang in ['java','kotlin','groovy','scala']:
        bad=0
        for seed in range(N):
            p=run(lang,seed)
            nodes,types=walk(p)
            viol=[]
            for t,path in types:
                if mode=='usv' and isinstance(t,tp.WildCardType): viol.append((str(t),path))
                if mode=='contra' and isinstance(t,tp.WildCardType) and t.is_contravariant(): viol.append((str(t),path))
                if mode=='bounded' and isinstance(t,tp.TypeParameter) and t.bound is not None: viol.append((str(t),path))
            for n in nodes:
                if mode=='pfun' and isinstance(n,ast.FunctionDeclaration) and n.type_parameters: viol.append((n.name,))
                if isinstance(n,ast.FunctionDeclaration):
                    for q in n.type_parameters:
                        if not q.is_invariant(): viol.append(('variant fun tparam',n.name,str(q)))
                if isinstance(n,ast.ClassDeclaration) and lang in ('java','groovy'):
                    for q in n.type_parameters:
                        if not q.is_invariant(): viol.append(('variant cls tparam',n.name,str(q)))
            if viol:
                bad+=1
                if bad<=3: print(lang,seed,viol[:4])
        print(mode,lang,'programs with violations:',bad,'/',N)
