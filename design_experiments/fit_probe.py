# re-judge finding 6: find_irrelevant_type on a type variable whose bound is parameterized
import sys, random as _r; _r.seed(3)
sys.argv=['x']; sys.path.insert(0,'/repo')
from src import utils
from src.ir import types as tp, java_types as jt, type_utils as tu
f=jt.JavaBuiltinFactory()
Y=tp.TypeConstructor("Yardstick",[tp.TypeParameter("T")])
M=tp.TypeConstructor("Marred",[tp.TypeParameter("T")],[Y.new([jt.Long])])   # class Marred<T> : Yardstick<Long>
E=tp.TypeParameter("E",bound=Y.new([jt.Long]))
types=[Y,M,jt.String,jt.Short,jt.Long,jt.Integer]
seen=set()
for s in range(200):
    utils.random.r.seed(s)
    r=tu.find_irrelevant_type(E,types,f)
    if r is not None and (r.is_subtype(E.bound) or E.bound.is_subtype(r)):
        seen.add(str(r))
print('related results for E <: Yardstick<Long>:', seen)
