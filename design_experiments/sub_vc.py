# Hand-written VCs (as pyvc would generate) for the soundness contracts of
#   Type.get_supertypes, SimpleClassifier.is_subtype, _is_type_arg_contained, ParameterizedType.is_subtype
from z3 import *
import time
O = DeclareSort('Obj'); L = DeclareSort('SeqObj')
Len=Function('Len',L,IntSort()); At=Function('At',L,IntSort(),O); Mem=Function('Mem',L,O,BoolSort())
idx=Function('idx',L,O,IntSort())
l=Const('l',L); x,y,z,u,v,w=Consts('x y z u v w',O); i,j=Ints('i j')
SEQ=[ForAll([l],Len(l)>=0,patterns=[Len(l)]),
     ForAll([l,i],Implies(And(0<=i,i<Len(l)),Mem(l,At(l,i))),patterns=[At(l,i)]),
     ForAll([l,x],Implies(Mem(l,x),And(0<=idx(l,x),idx(l,x)<Len(l),At(l,idx(l,x))==x)),patterns=[Mem(l,x)])]
# class tags
Cls,(SIMPLE,PARAM,WILD,TVAR,TCON,BUILTIN,NOTHING)=EnumSort('Cls',['SIMPLE','PARAM','WILD','TVAR','TCON','BUILTIN','NOTHING'])
cls=Function('cls',O,Cls)
supertypes=Function('supertypes',O,L); targs=Function('type_args',O,L); tcon=Function('t_constructor',O,O)
tparams=Function('type_parameters',O,L); bound=Function('bound',O,O); null=Const('null',O)
VAR,(INV,COV,CONTRA)=EnumSort('Var',['INV','COV','CONTRA']); variance=Function('variance',O,VAR)
# ghost predicates (declarative relation, introduction rules only)
Sub=Function('Sub',O,O,BoolSort()); Cont=Function('Cont',O,O,O,BoolSort()); SupStar=Function('SupStar',O,O,BoolSort()); PyEq=Function('PyEq',O,O,BoolSort())
def isW(a): return cls(a)==WILD
p=Const('p',O)
RULES=[
 ForAll([x,y],Implies(Or(PyEq(y,x),PyEq(x,y)),Sub(x,y)),patterns=[PyEq(y,x)]),
 ForAll([x,y],Implies(Or(PyEq(y,x),PyEq(x,y)),Sub(x,y)),patterns=[PyEq(x,y)]),
 ForAll([x,y],Implies(cls(x)==NOTHING,Sub(x,y)),patterns=[Sub(x,y)]),
 ForAll([x,u],Implies(Mem(supertypes(x),u),SupStar(x,u)),patterns=[Mem(supertypes(x),u)]),
 ForAll([x,u,v],Implies(And(SupStar(x,u),Mem(supertypes(u),v)),SupStar(x,v)),patterns=[MultiPattern(SupStar(x,u),Mem(supertypes(u),v))]),
 ForAll([x,u,y],Implies(And(SupStar(x,u),Sub(u,y)),Sub(x,y)),patterns=[MultiPattern(SupStar(x,u),Sub(u,y))]),
 # Args rule
 ForAll([x,y],Implies(And(cls(x)==PARAM,cls(y)==PARAM,PyEq(tcon(x),tcon(y)),
        ForAll([i],Implies(And(0<=i,i<Len(tparams(tcon(x)))),Cont(At(targs(x),i),At(targs(y),i),At(tparams(tcon(x)),i))),patterns=[At(targs(x),i)])),
        Sub(x,y)),patterns=[MultiPattern(targs(x),targs(y))]),
 # Cont rules
 ForAll([x,y,p],Implies(And(Not(isW(x)),Not(isW(y)),variance(p)==INV,PyEq(x,y)),Cont(x,y,p)),patterns=[Cont(x,y,p)]),
 ForAll([x,y,p],Implies(And(Not(isW(x)),Not(isW(y)),variance(p)==COV,Sub(x,y)),Cont(x,y,p)),patterns=[Cont(x,y,p)]),
 ForAll([x,y,p],Implies(And(Not(isW(x)),Not(isW(y)),variance(p)==CONTRA,Sub(y,x)),Cont(x,y,p)),patterns=[Cont(x,y,p)]),
 ForAll([x,y,p],Implies(And(Not(isW(x)),isW(y),bound(y)!=null,variance(y)==COV,Sub(x,bound(y))),Cont(x,y,p)),patterns=[Cont(x,y,p)]),
 ForAll([x,y,p],Implies(And(Not(isW(x)),isW(y),bound(y)!=null,variance(y)==CONTRA,Sub(bound(y),x)),Cont(x,y,p)),patterns=[Cont(x,y,p)]),
 ForAll([x,y,p],Implies(And(isW(x),isW(y),bound(x)!=null,bound(y)!=null,variance(x)==COV,variance(y)==COV,Sub(bound(x),bound(y))),Cont(x,y,p)),patterns=[Cont(x,y,p)]),
 ForAll([x,y,p],Implies(And(isW(x),isW(y),bound(x)!=null,bound(y)!=null,variance(x)==CONTRA,variance(y)==CONTRA,Sub(bound(y),bound(x))),Cont(x,y,p)),patterns=[Cont(x,y,p)]),
 ForAll([x,y,p],Implies(And(isW(x),Not(isW(y)),bound(x)!=null,variance(p)==COV,variance(x)==COV,Sub(bound(x),y)),Cont(x,y,p)),patterns=[Cont(x,y,p)]),
 ForAll([x,y,p],Implies(And(isW(x),Not(isW(y)),bound(x)!=null,variance(p)==CONTRA,variance(x)==CONTRA,Sub(y,bound(x))),Cont(x,y,p)),patterns=[Cont(x,y,p)]),
 ForAll([x,y,p],Implies(And(isW(y),bound(y)==null),Cont(x,y,p)),patterns=[Cont(x,y,p)]),
]
AX=SEQ+RULES
def prove(name,hyps,goal,timeout=10000):
    s=Solver(); s.set('timeout',timeout); s.set('auto_config',False); s.set('smt.mbqi',False)
    s.add(*AX); s.add(*hyps); s.add(Not(goal))
    t=time.time(); r=s.check(); print('%-40s %s %.2fs'%(name,r,time.time()-t)); return r
self_,other=Consts('self other',O)
# ---- SimpleClassifier.is_subtype:  return other == self or any(st.is_subtype(other) for st in supertypes if st != self)
#   callee contracts: get_supertypes: forall u in S: u is self or SupStar(self,u);  st.is_subtype(other) => Sub(st,other)
S=Const('S',L); st=Const('st',O); eq_res,call_res=Bools('eq_res call_res')
hyp_gs=[ForAll([u],Implies(Mem(S,u),Or(u==self_,SupStar(self_,u))),patterns=[Mem(S,u)])]
prove('Simple.is_subtype/post path eq',hyp_gs+[eq_res==PyEq(other,self_),eq_res],Sub(self_,other))
# any(...) true: witness st in S, (st != self) python-ne result true, call result true => Sub(st,other)
ne_res=Bool('ne_res')
prove('Simple.is_subtype/post path any',hyp_gs+[Not(PyEq(other,self_)),Mem(S,st),ne_res==Not(PyEq(st,self_)),ne_res,Implies(call_res,Sub(st,other)),call_res],Sub(self_,other))
# subtle: st != self uses PyEq(st,self); witness st could be `self` identity only if PyEq(self,self) false... then st is self and Sub(self,other) from callee directly.
# ---- _is_type_arg_contained(t, other, type_param): covariant non-wildcard path
t=Const('t',O); tp_=Const('tp',O); r=Bool('r')
prove('contained/cov path',[Not(isW(t)),Not(isW(other)),variance(tp_)!=INV,variance(tp_)==COV,Implies(r,Sub(t,other)),r],Cont(t,other,tp_))
prove('contained/cov path MUTANT reversed',[Not(isW(t)),Not(isW(other)),variance(tp_)!=INV,variance(tp_)==COV,Implies(r,Sub(other,t)),r],Cont(t,other,tp_))
prove('contained/w2 cov path',[isW(other),Not(isW(t)),bound(other)!=null,variance(other)==COV,Implies(r,Sub(t,bound(other))),r],Cont(t,other,tp_))
prove('contained/star path',[isW(other),bound(other)==null,Not(And(isW(t),bound(t)==null))],Cont(t,other,tp_))
# ---- ParameterizedType.is_subtype structural path: zip loop invariant forall j<i Cont(...), exit i==n
n=Int('n'); ii=Int('ii')
valid=[cls(self_)==PARAM,cls(other)==PARAM,Len(targs(self_))==Len(tparams(tcon(self_))),Len(targs(other))==Len(tparams(tcon(other))),
       Implies(PyEq(tcon(self_),tcon(other)),Len(tparams(tcon(self_)))==Len(tparams(tcon(other))))]
inv=lambda k: ForAll([j],Implies(And(0<=j,j<k),Cont(At(targs(self_),j),At(targs(other),j),At(tparams(tcon(self_)),j))),patterns=[At(targs(self_),j)])
prove('Param.is_subtype/loop preserve',valid+[PyEq(tcon(self_),tcon(other)),inv(ii),0<=ii,ii<Len(targs(self_)),Implies(r,Cont(At(targs(self_),ii),At(targs(other),ii),At(tparams(tcon(self_)),ii))),r],inv(ii+1))
prove('Param.is_subtype/post after loop',valid+[PyEq(tcon(self_),tcon(other)),inv(ii),ii==Len(targs(self_))],Sub(self_,other))
prove('Param.is_subtype/post MUTANT skip last',valid+[PyEq(tcon(self_),tcon(other)),inv(ii),ii==Len(targs(self_))-1,Len(targs(self_))>=1],Sub(self_,other))
# ---- get_supertypes loop: visited set as predicate Vis; invariant: forall u in Vis: u==self or SupStar(self,u)
Vis=Function('Vis',O,BoolSort()); Vis2=Function('Vis2',O,BoolSort()); src=Const('src',O); sup=Const('sup',O)
I=lambda V: ForAll([u],Implies(V(u),Or(u==self_,SupStar(self_,u))),patterns=[V(u)])
prove('get_supertypes/inv preserve',[I(Vis),Vis(src),Mem(supertypes(src),sup),ForAll([u],Vis2(u)==Or(Vis(u),u==sup))],I(Vis2))
print('cover'); prove('cover (expect unknown)',valid+[PyEq(tcon(self_),tcon(other)),inv(ii),ii==Len(targs(self_))],BoolVal(False),timeout=3000)
