import sys; sys.argv=['x']; sys.path.insert(0,'/repo')
from src.ir import types as tp, kotlin_types as kt, type_utils as tu
f=kt.KotlinBuiltinFactory()
T=tp.TypeParameter("T"); A=tp.TypeConstructor("A",[tp.TypeParameter("X")])
S=kt.String; I=kt.Integer
t1=A.new([tp.WildCardType(S,tp.Contravariant)]); t2=A.new([tp.WildCardType(T,tp.Covariant)])
m=tu.unify_types(t1,t2,f); print('in/out:',m, '->', tp.substitute_type(t2,m), 'target', t1, tp.substitute_type(t2,m)==t1)
try:
    print(tu.unify_types(A.new([tp.WildCardType()]), A.new([tp.WildCardType()]), f))
except Exception as e: print('star/star:',type(e).__name__,e)
try:
    print(tu.unify_types(A.new([tp.WildCardType()]), A.new([tp.WildCardType(T,tp.Covariant)]), f))
except Exception as e: print('star/outT:',type(e).__name__,e)
# repeated variable
B2=tp.TypeConstructor("B2",[tp.TypeParameter("X"),tp.TypeParameter("Y")])
print('rep:',tu.unify_types(B2.new([S,I]),B2.new([T,T]),f))
# bounded var: T: Number ; target String
Tb=tp.TypeParameter("T",bound=kt.Number)
print('bound viol top:',tu.unify_types(S,Tb,f), ' nested:',tu.unify_types(A.new([S]),A.new([Tb]),f))
# nested param with bound parameterized
Tc=tp.TypeParameter("U",bound=A.new([T]))
m=tu.unify_types(B2.new([A.new([S]), I]), B2.new([Tc, T]), f); print('bound-param:',m)
# supertypes mode
Bc=tp.SimpleClassifier("Bc",[A.new([S])])
print('super mode:',tu.unify_types(Bc, A.new([T]), f, same_type=False))
# variance: target wildcard, pattern non-wildcard
print('wild target vs plain pattern:', tu.unify_types(A.new([tp.WildCardType(S,tp.Covariant)]), A.new([T]), f))
