import sys; sys.argv=['x']; sys.path.insert(0,'/repo')
from src.ir import types as tp, kotlin_types as kt, type_utils as tu
T=tp.TypeParameter("T")
A=tp.TypeConstructor("A",[tp.TypeParameter("X")])
G=tp.TypeConstructor("G",[tp.TypeParameter("Y")])
B=tp.TypeConstructor("B",[T],[A.new([G.new([T])])])   # class B<T> : A<G<T>>
other=A.new([G.new([tp.TypeParameter("T")])])
print('B.is_subtype(A<G<T>>):', B.is_subtype(other))
B1=tp.TypeConstructor("B1",[T],[A.new([T])])
print('B1.is_subtype(A<T>):', B1.is_subtype(A.new([tp.TypeParameter("T")])))
inst=B.new([kt.String]); print('B<String> <: A<G<T>> ?', inst.is_subtype(other), [str(s) for s in inst.supertypes])
print(tu.find_subtypes(other,[B,kt.String,kt.Integer],concrete_only=True))
