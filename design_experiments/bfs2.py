from z3 import *
import time
N = DeclareSort('Node'); L = DeclareSort('Seq')
Len = Function('Len', L, IntSort()); At = Function('At', L, IntSort(), N); Mem = Function('Mem', L, N, BoolSort())
Snoc = Function('Snoc', L, N, L); Drop = Function('Drop', L, IntSort(), L); Single=Function('Single',N,L)
l,l2 = Consts('l l2', L); x,y = Consts('x y', N); i,j,k = Ints('i j k')
SEQ_AX = [
 ForAll([l], Len(l) >= 0, patterns=[Len(l)]),
 # Contains <-> exists index  (Dafny: Seq#Contains(s,x) <==> (exists i :: 0<=i<len && s[i]==x))
 ForAll([l,i], Implies(And(0<=i, i<Len(l)), Mem(l, At(l,i))), patterns=[At(l,i)]),
 # Snoc
 ForAll([l,x], Len(Snoc(l,x)) == Len(l)+1, patterns=[Snoc(l,x)]),
 ForAll([l,x,i], Implies(And(0<=i,i<Len(l)), At(Snoc(l,x),i)==At(l,i)), patterns=[At(Snoc(l,x),i)]),
 ForAll([l,x], At(Snoc(l,x),Len(l))==x, patterns=[Snoc(l,x)]),
 ForAll([l,x,y], Mem(Snoc(l,x),y) == Or(y==x, Mem(l,y)), patterns=[Mem(Snoc(l,x),y)]),
 # Drop
 ForAll([l,k], Implies(And(0<=k,k<=Len(l)), Len(Drop(l,k))==Len(l)-k), patterns=[Drop(l,k)]),
 ForAll([l,k,i], Implies(And(0<=k,0<=i,i<Len(l)-k), At(Drop(l,k),i)==At(l,i+k)), patterns=[At(Drop(l,k),i)]),
 # Drop 1 membership (List.mem_cons)
 ForAll([l,y], Implies(Len(l)>0, Mem(l,y) == Or(y==At(l,0), Mem(Drop(l,1),y))), patterns=[Mem(Drop(l,1),y)]),
 ForAll([l,y], Implies(Len(l)>0, Mem(l,y) == Or(y==At(l,0), Mem(Drop(l,1),y))), patterns=[MultiPattern(Mem(l,y), Drop(l,1))]),
 ForAll([l,y], Implies(Len(l)==0, Not(Mem(l,y))), patterns=[Mem(l,y)]),
 ForAll([x], Len(Single(x))==1, patterns=[Single(x)]),
 ForAll([x,y], Mem(Single(x),y)==(x==y), patterns=[Mem(Single(x),y)]),
 ForAll([x], At(Single(x),0)==x, patterns=[Single(x)]),
]
K = Function('K', N, BoolSort()); adj = Function('adj', N, L); R = Function('R', N, N, BoolSort())
s, d = Consts('s d', N)
def edge(a,b): return Mem(adj(a), b)
n,m,v,w = Consts('n m v w', N)
AX = SEQ_AX + [
  ForAll([n], Implies(K(n), R(n,n)), patterns=[K(n)]),
  ForAll([n,m,w], Implies(And(R(n,m), edge(m,w), K(w)), R(n,w)), patterns=[MultiPattern(R(n,m), Mem(adj(m),w))]),
]
A = ArraySort(N, BoolSort())
def inv(vis, q):
    return [
      ForAll([n], Implies(Mem(q,n), And(K(n), vis[n])), patterns=[Mem(q,n)]),
      ForAll([n], Implies(vis[n], And(K(n), R(s,n))), patterns=[vis[n]]),
      ForAll([n,m], Implies(And(vis[n], Not(Mem(q,n)), edge(n,m), K(m)), vis[m]), patterns=[MultiPattern(vis[n], Mem(adj(n),m))]),
      vis[s],
      ForAll([n], Implies(And(vis[n], Not(Mem(q,n))), n != d), patterns=[vis[n]]),
    ]
def prove(name, hyps, goals, timeout=20000):
    for gi,g in enumerate(goals):
        so = Solver(); so.set('timeout', timeout); so.set('auto_config', False); so.set('smt.mbqi', False)
        so.add(*AX); so.add(*hyps); so.add(Not(g))
        t=time.time(); r = so.check(); print(name, gi, r, round(time.time()-t,2))
vis, vis2, vis3 = Consts('vis vis2 vis3', A); q, q1, q2 = Consts('q q1 q2', L); nv=Const('nv',N)
prove('init', [K(s), ForAll([n], vis[n] == (n == s)), q == Single(s)], inv(vis, q))
ind = Implies(And(vis[s], ForAll([n,m], Implies(And(vis[n], edge(n,m), K(m)), vis[m]), patterns=[MultiPattern(vis[n], Mem(adj(n),m))])),
              ForAll([v], Implies(R(s,v), vis[v]), patterns=[R(s,v)]))
prove('exitFalse', inv(vis,q)+[Len(q)==0, ind], [Not(R(s,d))])
deq = [Len(q)>0, nv == At(q,0), q1 == Drop(q,1)]
prove('retTrue', inv(vis,q)+deq+[nv==d], [And(K(s), R(s,d))])
ii = Int('ii')
def inner(vis, qq, ii):
    return [
      ForAll([n], Implies(Mem(qq,n), And(K(n), vis[n])), patterns=[Mem(qq,n)]),
      ForAll([n], Implies(vis[n], And(K(n), R(s,n))), patterns=[vis[n]]),
      ForAll([n,m], Implies(And(vis[n], Not(Mem(qq,n)), n != nv, edge(n,m), K(m)), vis[m]), patterns=[MultiPattern(vis[n], Mem(adj(n),m))]),
      vis[s], vis[nv], K(nv), R(s,nv), nv != d,
      ForAll([n], Implies(And(vis[n], Not(Mem(qq,n))), n != d), patterns=[vis[n]]),
      ForAll([j], Implies(And(0<=j, j<ii, K(At(adj(nv),j))), vis[At(adj(nv),j)]), patterns=[At(adj(nv),j)]),
      0<=ii, ii<=Len(adj(nv)),
    ]
prove('innerEntry', inv(vis,q)+deq+[nv!=d], inner(vis,q1,IntVal(0)))
# inner body: vertex = adj(nv)[ii]; if K(vertex) and not vis[vertex]: q2 = Snoc(q1,vertex); vis2 = Store(vis,vertex,True) else same
vx = Const('vx', N)
body_then = [ii<Len(adj(nv)), vx==At(adj(nv),ii), K(vx), Not(vis[vx]), q2==Snoc(q1,vx), vis2==Store(vis,vx,True)]
prove('innerThen', inner(vis,q1,ii)+body_then, inner(vis2,q2,ii+1))
body_else = [ii<Len(adj(nv)), vx==At(adj(nv),ii), Not(And(K(vx), Not(vis[vx])))]
prove('innerElse', inner(vis,q1,ii)+body_else, inner(vis,q1,ii+1))
# inner exit -> outer inv. need: all succ of nv in K visited: from forall j<len ... requires Mem -> index (skolem)
idx = Function('idx', L, N, IntSort())
MEMIDX = ForAll([l,x], Implies(Mem(l,x), And(0<=idx(l,x), idx(l,x)<Len(l), At(l,idx(l,x))==x)), patterns=[Mem(l,x)])
prove('innerExit', inner(vis,q1,ii)+[ii>=Len(adj(nv)), MEMIDX], inv(vis,q1))
print('--- vacuity (expect NOT unsat)')
prove('vac_innerThen', inner(vis,q1,ii)+body_then, [BoolVal(False)], timeout=5000)
prove('vac_exit', inv(vis,q)+[Len(q)==0, ind], [BoolVal(False)], timeout=5000)
prove('vac_innerExit', inner(vis,q1,ii)+[ii>=Len(adj(nv)), MEMIDX], [BoolVal(False)], timeout=5000)
print('--- mutant: enqueue without marking visited (expect some not unsat)')
body_mut = [ii<Len(adj(nv)), vx==At(adj(nv),ii), K(vx), Not(vis[vx]), q2==Snoc(q1,vx), vis2==vis]
prove('mutThen', inner(vis,q1,ii)+body_mut, inner(vis2,q2,ii+1), timeout=5000)
print('--- mutant: return True when next_v != dest')
prove('mutRet', inv(vis,q)+deq+[nv!=d], [And(K(s), R(s,d))], timeout=5000)
