#!/bin/bash
# usage: seedtest_copy.sh <dir with patch.diff (absolute)> <property id> [tier]
# like seedtest.sh, but /repo is left alone: the patch is applied to a scratch copy of /repo HEAD (HEPH_REPO).
# The evidence file of the property is saved and restored (evidence committed in /verif must describe the unchanged tree).
set -u
d=$1; pid=$2; tier=${3:-quick}
wt=$(mktemp -d /tmp/seedcopy_XXXXXX)
git -C /repo archive HEAD | tar -x -C $wt
( cd $wt && patch -p1 -s < "$d/patch.diff" ) || { echo "PATCH DOES NOT APPLY"; rm -rf $wt; exit 9; }
cd /verif
cp evidence/$pid.json /tmp/evidence_$pid.$$ 2>/dev/null
HEPH_REPO=$wt ./check $pid --tier $tier | grep -v "^$" | grep -v KNOWN-FINDING | tail -8; rc=${PIPESTATUS[0]}
[ -f /tmp/evidence_$pid.$$ ] && mv /tmp/evidence_$pid.$$ evidence/$pid.json
rm -rf $wt
echo "check exit=$rc"
