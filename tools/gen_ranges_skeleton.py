import ast, sys, os
REPO=os.environ.get('HEPH_REPO','/tmp/repo_clean')
mods={'src/generators/generator.py':'src.generators.generator','src/generators/generators.py':'src.generators.generators',
 'src/generators/utils.py':'src.generators.utils','src/ir/type_utils.py':'src.ir.type_utils',
 'src/transformations/type_overwriting.py':'src.transformations.type_overwriting','src/modules/processor.py':'src.modules.processor'}
out=['''"""experiment"""
declare_class("Cfg")
declare_class("CfgLimits")
declare_class("CfgCls")
declare_class("CfgFn")
fields("Cfg", limits="CfgLimits")
fields("CfgLimits", cls="CfgCls", fn="CfgFn", max_type_params="Int", max_var_decls="Int", max_functional_params="Int")
fields("CfgCls", max_fields="Int", max_funcs="Int")
fields("CfgFn", max_side_effects="Int", max_params="Int")
global_var("src.generators.config.cfg", "Cfg")


@profile("ranges", slice=True, heap_closed=True,
         immutable_fields="limits,cls,fn,max_type_params,max_var_decls,max_functional_params,max_fields,max_funcs,max_side_effects,max_params",
         immutable_globals="src.generators.config.cfg")
def _():
    modifies(".*")
    global_invariant("max_fields", cfg.limits.cls.max_fields >= 1)
    global_invariant("max_funcs", cfg.limits.cls.max_funcs >= 2)
    global_invariant("max_params", cfg.limits.fn.max_params >= 0)
    global_invariant("max_side_effects", cfg.limits.fn.max_side_effects >= 0)
    global_invariant("max_type_params", cfg.limits.max_type_params >= 3)


@external("src.utils.random.choice")
def _(choices: "Any") -> "Any":
    requires("non-empty", truthy(choices))

@external("src.utils.random.integer")
def _(min_int: "Int", max_int: "Int") -> "Int":
    requires("non-empty-range", min_int <= max_int)
    ensures("in-range", min_int <= result and result <= max_int)

@external("src.utils.random.sample")
def _(population: "Any", k: "Int") -> "Any":
    pass

@external("src.utils.random.bool/1")
def _(prob: "Any") -> "Bool":
    pass

@external("src.utils.random.bool/0")
def _() -> "Bool":
    pass
''']
quals=[]
for f,m in mods.items():
    t=ast.parse(open(os.path.join(REPO,f)).read())
    out.append('load_module("%s")'%m)
    def visit(node,stack):
        for ch in ast.iter_child_nodes(node):
            if isinstance(ch,ast.ClassDef): visit(ch,stack+[ch.name])
            elif isinstance(ch,ast.FunctionDef):
                has=any(isinstance(c,ast.Call) and isinstance(c.func,ast.Attribute) and c.func.attr in('choice','integer','sample')
                        and isinstance(c.func.value,(ast.Attribute,ast.Name)) and (getattr(c.func.value,'attr',None)=='random' or getattr(c.func.value,'id',None)=='random') for c in ast.walk(ch))
                if has:
                    q='.'.join([m]+stack+[ch.name])
                    a=ch.args
                    ps=[x.arg for x in a.posonlyargs+a.args+a.kwonlyargs]
                    extra=''
                    if ch.name=='gen_type_params':
                        extra='    # callers pass the number of type variables of a type of the program: at most 4 (Function3<A1, A2, A3, R>),\n    # not proved here (assumed precondition; the bounded exploration runs the real callers)\n    requires("count", count is None or (0 <= count and count <= 4))\n'
                    sig=', '.join('%s: "%s"'%(p, stack[-1] if (p=='self' and stack) else 'Opt[Int]' if (p=='count' and ch.name=='gen_type_params') else 'Any') for p in ps)
                    out.append('@contract("%s")\ndef _(%s) -> "Any":\n    use_profile("ranges")\n    site_call("random.choice", "non-empty", truthy(arg0))\n    site_call("random.integer", "non-empty-range", arg0 <= arg1)\n    site_call("random.sample", "sample-size", 0 <= kw_k and kw_k <= len(arg0))\n%s'%(q,sig,extra))
                    quals.append(q)
    visit(t,[])
open('/verif/contracts/ranges_exp.py','w').write('\n'.join(out))
print('\n'.join(quals))
