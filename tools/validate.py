#!/usr/bin/env python3
"""validate MANIFEST.json and every evidence file against the schemas"""
import json, sys, os, glob
import jsonschema
m = json.load(open('/verif/MANIFEST.json'))
jsonschema.validate(m, json.load(open('/root/.vp/MANIFEST.schema.json')))
es = json.load(open('/root/.vp/EVIDENCE.schema.json'))
ok = True
for c in m['checks']:
    p = os.path.join('/verif', c['evidence_file']) if not c['evidence_file'].startswith('/') else c['evidence_file']
    if not os.path.exists(p):
        print('missing evidence', p); ok = False; continue
    try:
        ev = json.load(open(p))
        jsonschema.validate(ev, es)
        if ev['level'] != c['level_claimed']['category']:
            print('level mismatch', p); ok = False
    except Exception as e:
        print('invalid evidence', p, str(e)[:300]); ok = False
ids = {json.loads(l)['id'] for l in open('/verif/properties.jsonl')}
claimed = {c['property_id'] for c in m['checks']}
na = {x['property_id'] for x in m.get('not_applicable', [])}
if claimed | na != ids or claimed & na:
    print('claimed+not_applicable != properties', sorted(ids - claimed - na), sorted(claimed & na)); ok = False
print('manifest/evidence OK' if ok else 'PROBLEMS')
sys.exit(0 if ok else 1)
