#!/bin/bash
# usage: mutrun.sh <file> <python-replace-script> <sidecars> <quals...>
f=$1; shift; scr=$1; shift; sc=$1; shift
rm -rf /tmp/mut && mkdir /tmp/mut && (cd /repo && git archive HEAD | tar -x -C /tmp/mut)
cd /tmp/mut && python3 -c "
import sys
p='$f'; s=open(p).read()
exec(open('$scr').read())
assert s!=open(p).read(), 'mutation did not apply'
open(p,'w').write(s)
" || exit 9
cd /verif && HEPH_REPO=/tmp/mut PYTHONHASHSEED=0 python3-vt tools/dev.py $sc "$@" 2>&1 | grep -v "^abstracted" | cut -c1-260
