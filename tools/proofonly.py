"""proof parts only (no evidence written): python3-vt tools/proofonly.py <repo> C03 C04 ...  -> failed / undecided obligations"""
import importlib, os, sys
sys.path.insert(0, os.path.dirname(os.path.dirname(os.path.abspath(__file__))))
repo = sys.argv[1]
os.environ['HEPH_REPO'] = repo
from pyvc import driver
for pid in sys.argv[2:]:
    prop = importlib.import_module('props.' + pid)
    E, res = driver.verify(prop.FUNCTIONS, prop.SIDECARS, repo=repo, timeout_ms=30000)
    bad = []
    n = p = 0
    for fr in res:
        if fr.error:
            bad.append('%s: %s %s' % (fr.qual, fr.error_kind, fr.error.strip().split('\n')[-1][:200]))
        for o in fr.obligations:
            if o['kind'] != 'proof':
                continue
            n += 1
            if o['status'] == 'proved':
                p += 1
            else:
                bad.append('%s %s: %s' % (o['status'], o['name'], o['reason'][:80]))
    extra = []
    if hasattr(prop, 'custom_proof'):
        try:
            for o in prop.custom_proof('quick'):
                n += 1
                if o['status'] == 'proved':
                    p += 1
                else:
                    bad.append('%s %s: %s' % (o['status'], o['name'], str(o.get('reason'))[:120]))
        except Exception as e:
            bad.append('custom_proof crashed: %r' % e)
    print('%s: %d/%d' % (pid, p, n))
    for b in bad:
        print('    ' + b)
