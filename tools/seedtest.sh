#!/bin/bash
# usage: seedtest.sh <dir with patch.diff> <property id> [tier]   -- applies the patch to /repo, runs the check, reverts
set -u
d=$1; pid=$2; tier=${3:-quick}
git -C /repo diff --quiet || { echo "/repo has uncommitted changes"; exit 9; }; git -C /repo apply "$d/patch.diff" || { echo "PATCH DOES NOT APPLY"; exit 9; }
cd /verif && ./check $pid --tier $tier | grep -v "^$" | tail -12; rc=${PIPESTATUS[0]}
git -C /repo checkout -- . 
echo "check exit=$rc"
