#!/bin/bash
# usage: seedtest.sh <dir with patch.diff> <property id> [tier]   -- applies the patch to /repo, runs the check, reverts
set -u
d=$1; pid=$2; tier=${3:-quick}
cd /repo && git stash -q 2>/dev/null; git -C /repo apply "$d/patch.diff" || { echo "PATCH DOES NOT APPLY"; exit 9; }
cd /verif && ./check $pid --tier $tier | grep -v "^$" | tail -12; rc=${PIPESTATUS[0]}
git -C /repo checkout -- . ; git -C /repo stash pop -q 2>/dev/null
echo "check exit=$rc"
