#!/bin/bash
# usage: seedtest.sh <dir with patch.diff> <property id> [tier]   -- applies the patch to /repo, runs the check, reverts.
# The evidence file of the property is saved and restored: evidence committed in /verif must describe the unchanged tree.
set -u
d=$1; pid=$2; tier=${3:-quick}
git -C /repo diff --quiet || { echo "/repo has uncommitted changes"; exit 9; }; git -C /repo apply "$d/patch.diff" || { echo "PATCH DOES NOT APPLY"; exit 9; }
cd /verif
cp evidence/$pid.json /tmp/evidence_$pid.$$ 2>/dev/null
./check $pid --tier $tier | grep -v "^$" | tail -12; rc=${PIPESTATUS[0]}
git -C /repo checkout -- .
[ -f /tmp/evidence_$pid.$$ ] && mv /tmp/evidence_$pid.$$ evidence/$pid.json
echo "check exit=$rc"
