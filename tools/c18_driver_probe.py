"""C18 (bounded): the driver's own stage loop.  Run as a subprocess:  python3-vt tools/c18_driver_probe.py <repo> <lang> <t>

The real hephaestus.gen_program (option handling, ProgramProcessor, process_cp_transformations / process_ncp_transformations,
TypeErasure, TypeOverwriting, the translator) is run through the tool's own --replay option on hand-built programs -- among
them programs on which the erasure has nothing to erase -- with --transformations <t>.  A record with failed=True means an
exception escaped a stage (it would be reported to the user as a fault of the compiler under test).  Prints one JSON line."""
import json
import os
import random
import shutil
import sys
import tempfile
import traceback

repo, lang, t = sys.argv[1], sys.argv[2], int(sys.argv[3])
sys.path.insert(0, repo)
here = os.path.dirname(os.path.dirname(os.path.abspath(__file__)))
random.seed(18)
workdir = tempfile.mkdtemp(prefix='c18probe_')
out = dict(lang=lang, t=t, runs=0, failed=[])
try:
    os.chdir(repo)
    from src.ir import ast
    from src.ir.context import Context
    from src import utils
    import importlib
    types = importlib.import_module('src.ir.%s_types' % lang)
    unit = getattr(types, 'Unit', None) or getattr(types, 'Void', None) or getattr(types, 'VoidType')()

    def bare():
        """open class Shape; class Circle : Shape(); fun main() { Circle() }  -- nothing to erase"""
        context = Context()
        shape = ast.ClassDeclaration("Shape", superclasses=[], class_type=ast.ClassDeclaration.REGULAR,
                                     fields=[], functions=[], is_final=False, type_parameters=[])
        context.add_class(ast.GLOBAL_NAMESPACE, "Shape", shape)
        circle = ast.ClassDeclaration("Circle", superclasses=[ast.SuperClassInstantiation(shape.get_type(), [])],
                                      class_type=ast.ClassDeclaration.REGULAR, fields=[], functions=[], is_final=True,
                                      type_parameters=[])
        context.add_class(ast.GLOBAL_NAMESPACE, "Circle", circle)
        main = ast.FunctionDeclaration("main", params=[], ret_type=unit, body=ast.Block([ast.New(circle.get_type(), [])]),
                                       func_type=ast.FunctionDeclaration.FUNCTION)
        context.add_func(ast.GLOBAL_NAMESPACE, "main", main)
        return ast.Program(context, lang)

    def with_local():
        """fun main() { val x: String = "a" }  -- one erasable annotation"""
        context = Context()
        body = ast.Block([])
        main = ast.FunctionDeclaration("main", params=[], ret_type=unit, body=body,
                                       func_type=ast.FunctionDeclaration.FUNCTION)
        context.add_func(ast.GLOBAL_NAMESPACE, "main", main)
        x = ast.VariableDeclaration("x", ast.StringConstant("a"), is_final=True, var_type=types.String,
                                    inferred_type=types.String)
        body.body.append(x)
        context.add_var(ast.GLOBAL_NAMESPACE + ("main",), "x", x)
        return ast.Program(context, lang)

    progs = {'bare': bare, 'with_local': with_local}
    files = {}
    for name, mk in progs.items():
        f = os.path.join(workdir, name + '.bin')
        utils.dump_program(f, mk())
        files[name] = f
    first = True
    h = None
    for name, f in files.items():
        argv = ['hephaestus.py', '--language', lang, '--transformations', str(t), '--replay', f,
                '--bugs', os.path.join(workdir, 'bugs_' + name), '--name', 'probe_' + name, '--log-file', os.path.join(workdir, 'logs'),
                '--dry-run', '--iterations', '1']
        for m in [k for k in sys.modules if k == 'hephaestus' or k == 'src.args']:
            del sys.modules[m]
        sys.argv = argv
        import hephaestus as h
        h.validate_args(h.cli_args)
        h.pre_process_args(h.cli_args)
        d = os.path.join(workdir, 'run_' + name)
        os.makedirs(d, exist_ok=True)
        res = h.gen_program(1, d, ('src.a', 'src.b'))
        out['runs'] += 1
        if res.failed:
            out['failed'].append(dict(program=name, error=str(res.stats.get('error'))[:300]))
except BaseException:
    out['harness_error'] = traceback.format_exc()[-600:]
finally:
    shutil.rmtree(workdir, ignore_errors=True)
print('PROBE ' + json.dumps(out))
