#!/bin/bash
# usage: confirm_seed.sh <seed dir (patch.diff, demo.py, meta.json)> <dest name e.g. C19_1> <property id>
# confirms in a scratch worktree of /repo HEAD: patch applies, tests pass (161), demo fails with patch, passes without.
set -u
src=$1; name=$2; pid=$3
wt=$(mktemp -d /tmp/confirm_XXXX); rmdir $wt
git -C /repo worktree add -q --detach $wt HEAD || exit 9
res="ok"
cp $src/demo.py $wt/demo.py
( cd $wt && /venv/bin/python demo.py >/tmp/demo_clean.out 2>&1 ); clean=$?
( cd $wt && git apply $src/patch.diff ) || res="patch-does-not-apply"
tests=$( cd $wt && /venv/bin/python -m pytest -q -p no:cacheprovider --timeout=900 2>&1 | tail -1 )
( cd $wt && /venv/bin/python demo.py >/tmp/demo_patched.out 2>&1 ); patched=$?
git -C /repo worktree remove --force $wt
echo "$name: demo clean exit=$clean patched exit=$patched tests: $tests  [$res]"
if [ "$res" = ok ] && [ $clean -eq 0 ] && [ $patched -ne 0 ] && echo "$tests" | grep -q "161 passed"; then
  mkdir -p /verif/seeded/$name && cp $src/patch.diff $src/demo.py /verif/seeded/$name/
  python3 - "$src/meta.json" "/verif/seeded/$name/meta.json" "$pid" "$tests" <<'PY'
import json,sys
m=json.load(open(sys.argv[1]))
m['property']=sys.argv[3]
m['confirmed']={'by':'tools/confirm_seed.sh in a scratch worktree of /repo HEAD','tests':sys.argv[4],'demo_without_patch_exit':0,'demo_with_patch_nonzero':True}
json.dump(m,open(sys.argv[2],'w'),indent=1)
PY
  echo "  kept as /verif/seeded/$name"
else
  echo "  NOT kept"; tail -5 /tmp/demo_clean.out
fi
