NOTES = ("Contract-based deductive verification of the real code with a VC generator built in /verif/pyvc (no Python "
         "verifier is installed). Exit codes of ./check: 0 held, 1 VIOLATION, 2 undecided, 3 checker error. "
         "Bounded stand-ins are labelled in each evidence file under coverage.bounded and never counted as discharged.")

NOT_APPLICABLE = {
    'C01': "whole-program typing of ~60 mutually recursive random generator methods: no contract within reach of the VC generator states it (DESIGN.md C01); the helper layer it rests on is C06-C10",
    'C02': "the judge is javac (external static semantics of Java); not expressible as a contract on Hephaestus code",
    'C05': "whole-program name resolution of generated programs (same shape as C01); the symbol table itself is C16",
    'C12': "statement is about emitted text vs IR inventory; would need a parser of four target languages as specification vocabulary",
}

CHECKS = {
    'C19': dict(
        level='proof',
        technique='deductive verification: pyvc VCs (loop invariants, least-fixpoint induction, recursive contract for find_all_paths) discharged by z3 (cvc5 re-check and lean/Reach.lean in the thorough tier); find_all_reachable proved against the all-simple-paths contract with two induction lemmas proved in lean/MaxPrefix.lean and lean/SimplePath.lean; bounded exhaustive cross-check of all queries',
        text=("reachable, bi_reachable, connected, dfs/_dfs, find_all_bi_reachable, find_all_connected, none_reachable, "
              "none_connected, find_sources, find_all_paths (exactly the simple paths that extend the given prefix: sound and "
              "complete, partial correctness), find_longest_paths(+exist) are proved for all graphs and vertices against "
              "closure-based specifications (post-conditions are exact: iff / set equality), every obligation discharged by z3 "
              "from the current source. find_all_reachable is proved to return exactly the vertices that lie on a simple path from "
              "the vertex (the union over ALL simple paths although it iterates over the maximal ones: one induction lemma -- every "
              "member of a finite list of sequences is, or is a proper prefix of, a member that is a proper prefix of no member -- "
              "is proved in lean/MaxPrefix.lean and re-checked by lean in the thorough tier) and therefore exactly the "
              "reflexive-transitive closure of the edge relation (second induction lemma, loop erasure: a vertex is reachable iff it "
              "lies on a simple path from the start -- lean/SimplePath.lean). Every query, proved or not, is also compared with the reference on all small digraphs in both tiers (incl. a source vertex that is an equal but not identical object), and graph_utils must keep no module-level state."),
        note=("trusted: pyvc's Python-subset encoding, collection axioms, least-fixpoint induction schema, partial "
              "correctness (termination not proved), abstract vertex equality (identity vs equality of vertex objects is "
              "only covered by the bounded part)"),
        design='DESIGN.md section 4 (C19)'),
    'C16': dict(
        level='proof',
        technique='deductive verification: per-operation contracts against an abstract view (Ent / reverse index / CtxInv), VCs discharged by z3; history quantifier by induction over operations; bounded random histories as cross-check',
        text=("33 functions of src/ir/context.py (+ utils.prefix_lst) are proved against an abstract scoped-map view: every "
              "mutator transforms the whole view exactly as specified (touched entry, all other (namespace, kind) entries "
              "unchanged, reverse index, representation invariant, frame on other Context objects); current-namespace "
              "queries are proved equal to the namespace's entries including insertion order; enclosing-scope queries equal "
              "the fold of dict-update along the path (inner shadows outer); name lookup returns the innermost enclosing "
              "namespace with a real declaration. Because each operation is proved for all states satisfying the "
              "invariant, the statement holds after any history. The two worklist traversals (_get_declarations_glob, "
              "get_namespaces_decls) are proved sound and complete w.r.t. least-fixpoint namespace reachability using a ghost "
              "set of processed namespaces (termination not proved). Random operation histories against a reference "
              "model are run as engine cross-check only. The bounded part also uses real IR type parameters (same name, different bounds) as keys of the reverse index."),
        note=("trusted: pyvc encoding; abstract declaration equality; callers do not mutate returned dictionaries; "
              "termination of the worklist loops; get_decl_type not under contract"),
        design='DESIGN.md section 4 (C16)'),
    'C15': dict(
        level='proof',
        technique='deductive verification: contracts on check_oracle / update_stats / get_batches / stop_condition / _run / process_res over a ghost file system and ghost analysis result, loop invariants with a ghost set of processed programs, VCs discharged by z3; exhaustive small-batch runs of the real driver with a stubbed compiler as cross-check',
        text=("check_oracle is proved, for every batch and every compiler verdict, to report a program iff the tool failed on "
              "it, or an expected-to-compile file has a compiler error, or an expected-to-fail file has none, or the compiler "
              "crashed (then all programs of the batch); the messages (compiler error / SHOULD NOT BE COMPILED prefix / crash "
              "output), the saved test case per compiler-related fault, the removed scratch and batch directories, and that no "
              "other path is touched; every shutil.copytree/rmtree precondition holds (no FileExistsError). update_stats, "
              "get_batches, stop_condition are proved exact; the batch loop _run keeps passed+failed equal to the number of "
              "programs handed to the generator, passes disjoint pid ranges, and process_res (sequential) maps pids to results "
              "and records exactly the reported programs in STATS['faults'] / faults.json. Also under contract: the pool callback (the batch size handed to update_stats) and src.args.validate_args (returns only if no session directory of that name exists and at most one stop condition is set). gen_program is under its own contract (slice mode, obligations at both return statements): a normal record lists the well-typed program as expected-to-compile and the ill-typed one -- only when the fault-injecting stage produced one and that stage is enabled -- as expected-to-be-rejected together with its message, carries no message otherwise, and a failed record is produced exactly on the exception path; ProgramProcessor.inject_fault and process_ncp_transformations hand the mutation's own message (and the mutated program) up to that record unchanged, and nothing when the mutation reports that nothing was injected."),
        note=("worker-pool mode: only the sequential shape of run_parallel's shutdown is verified (ghost pool life cycle: on the "
              "path without KeyboardInterrupt the pool is closed and joined, never terminated; 4 syntactic shape obligations), "
              "its concurrency is outside this family; the bounded stand-in takes the per-program record from the real "
              "gen_program (stubbed stages), so the order of stats['programs'] that check_oracle's message logic depends on is "
              "the real one; trusted external contracts for os.path/shutil/"
              "time/run_command, gen_program (assumed behaviour), save_stats, and C14's analyze_compiler_output; sys.exit under "
              "--debug is abrupt termination"),
        design='DESIGN.md section 4 (C15)'),
    'C06': dict(
        level='proof',
        technique='deductive verification by rule justification: every return-True path of is_subtype / _is_type_arg_contained / get_supertypes / is_assignable is derived from Horn rules of the declarative relation (z3, E-matching); bounded exhaustive comparison with an executable least fixpoint for exactness',
        text=("Soundness (first sentence of C06) is proved for all class tables and all valid types: Builtin / SimpleClassifier / "
              "TypeParameter / WildCardType / ParameterizedType / NothingType (4 modules) / Function.is_subtype, "
              "_is_type_arg_contained (all 12 containment cases), get_supertypes (closure), Type.is_assignable and the 13 Java/"
              "Groovy boxed-numeric is_assignable overrides (result implies Sub or the JLS widening table), not_related, and "
              "TypeConstructor.is_subtype (a bare generic class is below T only if T equals one of its declared supertypes in "
              "which none of its own type parameters occurs at any depth; _type_var_occurs_in is proved equal to the recursive "
              "definition of 'occurs'; the shallow check of the unchanged tree was a genuine defect, repaired). A reversed "
              "variance, a skipped type argument, an ignored bound or a name-based constructor comparison leaves a return-True "
              "path without an applicable rule. Exactness / reflexivity / transitivity / bottom on ground class types is NOT "
              "proved: bounded exhaustive comparison on a 155-type universe. Type identity (the __eq__ / __hash__ overrides) is under contract too; the bounded part also edits the hierarchy behind a generic supertype and re-queries."),
        note=("trusted: Horn rules are the declarative relation; PyEq (__eq__) as type identity; Valid(t) well-formedness as "
              "precondition; same-constructor-same-arity; ParameterizedType.is_assignable is under contract too (result implies Sub, or both are Java arrays with == element types); the "
              "__eq__ overrides are under the identity contracts only"),
        design='DESIGN.md section 4 (C06)'),
    'C07': dict(
        level='proof',
        technique='deductive verification of frames (allocation-set ghost: every attribute write targets an object allocated in the call; frame postconditions "all fields of every pre-existing object unchanged") with z3; structural clauses by bounded comparison with a reference substitution',
        text=("Proved for all class tables, maps and arguments: the constructors (Type, SimpleClassifier, TypeParameter, "
              "WildCardType, TypeConstructor, ParameterizedType.__init__), _get_type_substitution, substitute_type_args, "
              "substitute_type, perform_type_substitution and TypeConstructor.new modify no object that existed before the call "
              "(neither the generic class definition nor any argument nor any earlier instantiation), return a new "
              "ParameterizedType with exactly the given arguments, the constructor's name, as many supertypes as declared and a "
              "private constructor copy whose supertypes are the declared ones. Of 'every occurrence is replaced' the clauses for "
              "occurrences ONE level deep are proved for all inputs (_get_type_substitution, substitute_type_args; 38 obligations): a "
              "type variable the map assigns (and the caller's condition lets through) is replaced by its assignment -- as the type "
              "itself, as a type argument, and inside the bound of a projected type argument (projection kind kept); an instantiation "
              "in argument position or in a projection bound is re-built (a new object with as many arguments); a bounded variable "
              "that is not replaced is re-built with its name and variance; anything else is returned as it is. Deeper occurrences "
              "follow by the same clauses of the nested calls, but that induction, the substitution of the supertypes up the "
              "hierarchy (it runs under the DEFAULT condition, which the engine does not distinguish from the caller's), 'empty map "
              "gives an equal type' and 'ground map leaves no type variable' are NOT proved: bounded comparison with an independent "
              "reference substitution on 6 class tables. Also under contract: ParameterizedType.to_variance_free (frame), the five has_type_variables overrides (equal to a recursive definition) and type identity; the bounded part includes a diamond hierarchy, star projections and a type flagged can_infer_type_args."),
        note=("trusted: deepcopy contract (fresh, same class/name/arity, touches nothing old), allocation model and heap "
              "closure, purity of cond, Valid(t) preconditions; type-map lookups modelled by identity of the key"),
        design='DESIGN.md section 4 (C07)'),
    'C10': dict(
        level='proof',
        technique='deductive verification with pyvc + z3: _update_type_var_map in full mode; unify_types in slice mode with obligations at every binding site (_update_type_var_map calls, recursive calls) and every return statement, plus a syntactic census that the result map is filled only at those sites; bounded evaluation against an independent term-level matcher for the clauses that need induction over the type structure',
        text="Proved for all types and class tables (56 obligations): a pattern variable is bound only to the target's component at the SAME argument position (use-site projections are unwrapped pairwise and only for equal kinds -- star vs star binds nothing), and only after the type system answered that the component is a subtype of the variable's bound (declared bound, or its variable-free form get_bound_rec; hence a subtype in the declarative relation by C06); a top-level pattern variable is bound to the target only within its bound; recursion is only on the components at the same position (pattern component, or the bound of the pattern variable) or, in supertype-matching mode, on the last declared supertype of the target; bindings of a recursive call enter the result only through _update_type_var_map, which refuses exactly a second, different type for a variable and leaves every other binding alone; the result map is written nowhere else; a non-empty result for two instantiations requires equal generic classes; every return statement is under an obligation. NOT proved -- bounded (about 3M triples quick / 13M thorough vs an independent matcher): that applying the FINAL assignment to the pattern yields the target and the open-variable clause (both need induction over the type structure / monotonicity of matching under extension of the map). One defect repaired in /repo (projection kinds ignored, crash on star projections); one known finding (supertype mode leaks the class's own parameter; root cause in TypeConstructor.new).",
        note='trusted: slice-mode havoc (the any(...) conditions over a recursive result are probed per element), callees of unify_types do not modify existing types (immutable_fields), WithinBound given by introduction rules over the answers of the real is_subtype, Variance.__eq__ linked to PyEq by its proved contract, dictionary keys modulo identity of the model value; bounded: fixed + random term-level class tables',
        design='DESIGN.md section 4 (C10), 10.3'),
    'C17': dict(
        level='proof',
        technique='deductive verification by induction over construction sites (slice mode of the VC generator: unsupported statements are havocked, obligations sit at the sites) with z3; bounded walk of generated programs under the 16 switch combinations',
        text=("Proved for every state of the generator and every configuration: each of the 5 construction sites "
              "of WildCardType in src/ (enumerated from the AST on every run; an uncovered new site is a failed obligation) "
              "re-establishes J1 (use-site variance disabled => no projection object exists) and J2 (contravariance disabled => "
              "no contravariant projection), and _get_type_arg_variance returns Invariant / never Contravariant under the "
              "switches (plus its caller-choice and declared-variance clauses). One site (_to_type_variable_free) genuinely "
              "violates J1: known finding. For type-parameter bounds, parameterized functions and declaration-site variance "
              "(J3-J6) the generator's DECISION POINTS are proved: gen_type_params creates no bound when "
              "cfg.prob.bounded_type_parameters == 0 and no variance unless asked; gen_func_decl chooses no type parameters when "
              "cfg.prob.parameterized_functions == 0 and never asks for variance; every call of gen_type_params in src/ "
              "(enumerated on every run) asks for variance only for kotlin / scala. That later copies, substitutions and "
              "TypeUpdater preserve J3-J6, and the CLI wiring of src/args.py, are bounded only."),
        note=("trusted: site-induction schema, slice-mode havoc (abstractions listed in evidence), immutability of cfg and of the "
              "Variance constants, copies preserve class and variance, RandomUtils.bool(0) is never True; J3-J6 propagation "
              "and CLI wiring not proved"),
        design='DESIGN.md section 4 (C17), 2.7, 10.3'),
    'C13': dict(
        level='exploration',
        technique='bounded run-time contract of the dump / read-back path (generated, erased and overwritten programs, four languages) for the round-trip law, which is a statement about the external pickle library; deductive verification (pyvc + z3) only of the glue around it: dump_program / load_program against a ghost disk, the two call sites (save_program, ProgramProcessor.get_program) in slice mode, and a syntactic census that no class under src/ customises pickling',
        text='NOT proved: that a program read back is indistinguishable from the original (translates identically in every language, mutations replay with the same random choices, re-dump stable) -- this is a property of what pickle does with the IR object graph; Pickled / Unpickled are uninterpreted and their round-trip law is trusted. It is evaluated at run time on generated / erased / overwritten programs of a fixed seed list in four languages (bounded). Proved (24 obligations, the glue, for every path and program): dump_program pickles the very object it is given, in binary write mode, into exactly the file named and touches no other file; load_program unpickles exactly the content of the file named (binary read mode) and returns it unchanged; save_program dumps THE program whose text it saves into <file>.bin; with --replay the processor reads exactly the file given and hands the read-back on unchanged, and generates a program only without --replay; no class under src/ defines __getstate__ / __setstate__ / __reduce__ / __copy__ / __deepcopy__ / __slots__ and copyreg is not used (default pickling is what the trusted law is about). Type identity (__eq__ / __hash__) is under contract as for the other properties. One benign known finding (reverse index of re-hashed type parameters).',
        note='trusted: the pickle library (round-trip law), external contracts of open / pickle.dump / pickle.load over a ghost disk, slice-mode havoc in the two call-site functions; bounded: seeds [1, 3, 4, 886440] (+VERIF_SEED) x 4 languages x {generated, erased, overwritten}',
        design='DESIGN.md section 4 (C13)'),
    'C14': dict(
        level='proof',
        technique='deductive verification of the attribution glue (re.* as uninterpreted externals, recursive ghost definitions for the filter fold and per-file message lists, loop invariants) with z3; bounded evaluation of the regular expressions on rendered and real compiler output',
        text=("Proved for every output string and every pattern list: BaseCompiler.analyze_compiler_output (inherited by Java, "
              "Kotlin, Scala) and the Groovy override check the crash pattern first and then return exactly the matches of "
              "ERROR_REGEX on the output with the filter patterns deleted in order, every match attributed to its own file with "
              "its message in order, no file without a match, nothing dropped or moved; Groovy's stack-overflow rule; the "
              "get_filename / get_error_msg overrides. What the four regular expressions match (warnings, notes, summaries, "
              "quoted lines, crash traces) is NOT proved: rendered outputs from record lists for four compilers plus real javac "
              "runs. utils.path2set (one filter pattern per stripped line of the file) is under contract; bounded additions: pattern files with blanks, the same compiler object on two batches."),
        note=("trusted: re.search/sub/findall as deterministic functions; kotlinc/groovyc/scalac output formats are assumptions "
              "of the harness (only javac is installed and validated); known findings listed for message-only filter "
              "patterns and three regex corner cases; one output shape with unvalidated grammar is not judged"),
        design='DESIGN.md section 4 (C14)'),
    'C09': dict(
        level='proof',
        technique='deductive verification of the real search functions with pyvc + z3: _find_types / find_subtypes / find_supertypes / to_type in full mode (loop invariant over the pool walk, postconditions over the returned list, C06\'s contract of is_subtype at the guarding call), find_irrelevant_type in slice mode with obligations at every return statement and at the two search calls; bounded evaluation of the same statement against an independent declarative relation for what the proof leaves open (_construct_related_types, completeness of the searches, re-instantiation)',
        text=("Proved for every pool, query and flag combination (67 obligations): every element of a subtype-search result is -- or, for a "
              "bare generic class when concrete types are requested, is an instantiation of -- a type for which the type system "
              "answered is_subtype(T) (hence a subtype in the declarative relation by C06's proved contract), or T itself exactly "
              "when asked for, or the ONE element built by _construct_related_types (ghost Related: outside the proof); no "
              "uninstantiated generic class is returned when concrete types are requested; T is included (modulo ==) when asked "
              "for and the identical object is never included otherwise. The irrelevant-type search returns None for the top "
              "type; it runs both searches with include_self and concrete_only on the whole pool for the query or, for a type "
              "variable, its bound (followed through variable-to-variable bounds); a pool member it returns is (modulo ==) in "
              "neither complete result list, is not the top type and not a bare generic class; a re-instantiated generic class is "
              "returned only if is_subtype answered False in both directions; every return statement of the function is under an "
              "obligation. NOT proved -- bounded: what _construct_related_types builds, that the two result lists contain ALL "
              "relatives (exactness of C06), get_irrelevant_parameterized_type. The bounded check enumerates, for a family of "
              "class tables x every query type x every flag combination, ALL random-choice paths of the real search and judges "
              "every returned type with a reference relation written from the property text. 12 failing input classes were "
              "repaired in /repo (four fix commits); two families of input classes remain as known findings (lists of concrete inputs)."),
        note="trusted: _construct_related_types and instantiate_type_constructor as uninterpreted ghosts (Related / InstOf), 'an instantiation of a bare generic class below T is below T', PoolValid precondition, slice-mode havoc in find_irrelevant_type (choose_type, get_irrelevant_parameterized_type, one dict comprehension), superset model of sets of IR types, to_type as a function symbol; bounded: stated class-table family, random choices enumerated per query up to a path budget, known findings pinned to 16 concrete inputs",
        design='DESIGN.md section 10.9 (C09 proof part), section 4 (C09)'),
    'C08': dict(
        level='proof',
        technique='deductive verification in slice mode of the instantiation helpers (site obligations at the only place that creates a use-site projection, at t_args.append and at the call forwarding the variance choices; _get_type_arg_variance fully under contract) with z3; bounded run-time evaluation of the bound / arity / kept-request clauses',
        text=("Proved for every declaration, pool, pre-assignment and variance-choice map: the only WildCardType(...) in "
              "_compute_type_variable_assignments is built with a variance that _get_type_arg_variance allowed at that moment -- "
              "never invariant, never when cfg.dis.use_site_variance, never contravariant when cfg.dis.use_site_contravariance, "
              "only with the caller's variance choices present and permitting it, compatible with the declared variance, the "
              "index still designating the current parameter, and never when a later parameter's bound mentions it; no appended "
              "argument is an uninstantiated generic class; instantiate_type_constructor forwards disable_variance / the "
              "Function* rule as choices that forbid every projection; _get_available_types filters and boxes. The clauses that "
              "depend on the subtype search (argument within the substituted bound, one argument per parameter, requested "
              "assignments kept) are bounded only: 1 defect repaired (shadowed loop index, found by the proof obligation), 6 "
              "input classes recorded as known findings. The two boolean switches reach cfg for every flag combination (symbolic execution of the configuration block of src/args.py, z3); the bounded part also runs the substitution reference of C07."),
        note=("trusted: slice-mode havoc of the statements outside the subset (listed in evidence), TypeParameter.has_bound_of, "
              "random.choice, immutability of cfg and Variance constants; bound / kept / arity clauses are bounded (synthetic "
              "declarations up to 4 parameters x pools x requests x variance maps + generator calls for a seed list)"),
        design='DESIGN.md section 4 (C08), 2.7'),
    'C11': dict(
        level='proof',
        technique='state-reset obligations of the translators (every instance attribute a visit can change is re-initialised by _reset_state / saved and restored; decided with z3 from the real AST) and a syntactic write-frame analysis of all four translators (no store whose receiver is reachable from the program argument); bounded replay of translation histories',
        text=("Decided for every program and history, on the real source of the four translators: (a) reset discipline -- each "
              "instance attribute that any visit method of JavaTranslator / GroovyTranslator may change is assigned in "
              "_reset_state to a value equal to the one __init__ gives it, and visit_program calls _reset_state before reading "
              "any of them, so the text cannot depend on earlier translations through translator state; (b) write frame -- "
              "every attribute store, augmented assignment, subscript store and in-place mutator call in the translators has a "
              "receiver rooted at self or at an object created in the same function, never at a node of the program. Not "
              "proved: Kotlin / Scala use save-and-restore instead of reset, and writes performed by IR helper methods the "
              "translators call (the defect repaired in /repo was such a write) -- both are covered by the bounded part: "
              "byte-identical text and an unchanged program over histories of translations of generated, erased, overwritten "
              "and hand-built programs. A hidden-state census (no module-level container written from a function, no mutable default argument written through) covers the translators and the IR modules they call."),
        note=("trusted: the syntactic attribute-change and aliasing analysis (module-level containers tracked, attribute values "
              "aliased between methods not); callee chains into src/ir are bounded only; string building of the 31 visit "
              "methods per translator is not under contract"),
        design='DESIGN.md section 4 (C11)'),
    'C03': dict(
        level='proof',
        technique='write frame of the erasure by deductive site obligations (slice mode of the VC generator, z3) + contracts of the two omit_type overrides + a syntactic write census of the three modules; the inferability sentence by bounded evaluation (structural diff + independent three-valued local type inference on hand-built and generated programs)',
        text=("Proved for every program (first sentence of the statement, as a write frame): TypeErasure writes into the program "
              "only by switching can_infer_type_args of an instantiation ON and by calling omit_type() on the declaration of a "
              "selected candidate node; both omit_type overrides set exactly the declared type (var_type / ret_type) to None and "
              "change nothing else; type_erasure.py, transformations/base.py and type_dependency_analysis.py contain no other "
              "store, in-place mutation or call of an IR-mutating method that could reach the program (census regenerated from the "
              "AST on every run; the analysis' own type graph and the cached callee link FunctionCall.type_parameters are the "
              "listed exceptions). NOT proved -- bounded: the second sentence (each removed annotation is what a compiler "
              "infers; the program stays well-typed), i.e. the meaning of is_combination_feasible: an independent local "
              "inference re-derives every removed annotation on hand-built and generated programs in four languages. One "
              "genuine defect found there and repaired in /repo."),
        note=("trusted: slice-mode havoc, the syntactic census (aliasing only via fresh objects), DefaultVisitorUpdate / "
              "update_children re-install unchanged children (not proved); bounded: 17 hand-built scenarios x 2 element types x "
              "4 languages + fixed generator seed lists; inferred-narrower-than-declared is counted, not reported"),
        design='DESIGN.md section 10.3 (C03/C04)'),
    'C04': dict(
        level='proof',
        technique='deductive site obligations at the attribute stores of TypeOverwriting.visit_func_decl (slice mode, z3) + syntactic write census of the module; the semantic clauses by bounded evaluation (structural diff, declarative unrelatedness incl. assignment conversions, message, translation change, must-reject approximation and javac)',
        text=("Proved for every program and every random choice: each declared type the mutation writes (var_type / ret_type / "
              "inferred_type) is the non-None result of the irrelevant-type search and is written into the declaration of the "
              "selected candidate node; an injection is reported (error_injected, is_transformed) only on a path on which the "
              "declared type of that candidate -- var_type for a variable, ret_type otherwise -- and its recorded type were "
              "overwritten with that result; type_overwriting.py writes nothing else into the program (census). NOT proved -- "
              "bounded: 'exactly one' for an overwritten type argument of an instantiation (that branch is abstracted), "
              "unrelatedness of the new type (C09), message content, that the translation changes, that a correct checker "
              "must reject, and the nothing-injected case. One defect repaired in /repo; four check names are known findings. Also verified here (second group): the contract of the irrelevant-type search (C09's proof part: result in neither complete search list, never the top type, a re-instantiated generic class only if is_subtype answers False both ways) and a census that every declaration object the dependency analysis invents carries the reserved name RET by which the mutation excludes it from the candidates."),
        note=("trusted: slice-mode havoc, find_irrelevant_type does not modify the program, the syntactic census; bounded: same "
              "program set as C03 x RNG seeds of the mutation; 'must reject' is approximated (three-valued), decided by javac "
              "only for a budgeted Java subset"),
        design='DESIGN.md section 10.3 (C03/C04)'),
    'C18': dict(
        level='exploration',
        technique='proof part (pyvc + z3, slice mode): 31 site obligations over 25 functions of the generator / the mutations / the subtype search -- every ut.random.integer / choice / sample draw whose argument can be shown non-empty from the function itself plus the configuration invariants (6 syntactic config obligations); bounded stand-in for everything else: the real pipeline (generate, translate, TypeErasure, translate, TypeOverwriting, translate) run for a finite list of language x seed x switches x depth limit x mutation options; no exception in any stage, work budgets for termination, erasure search budget, and a nesting bound derived from the generator code as a function of the configured depth',
        text=("PROVED (part): three of the crash classes the property names (empty range in randint, empty candidate list in choice, "
              "over-sized sample) cannot occur at 31 of the 60 draw sites of the pipeline (contracts/ranges.py; one of them, the draw in _construct_related_types, failed on the unchanged tree -- IndexError of the subtype search on a primitive array -- and was repaired in /repo; two earlier 'proofs' were vacuous because of an engine bug, DESIGN 10.2 item 6: one is now proved for real, one was withdrawn; one assumed "
              "precondition, gen_type_params count <= 4, checked at run time in the bounded tier; configuration limits as global "
              "invariants justified by a census of config.py defaults and stores). The other 29 draws depend on what a callee "
              "returns and stay bounded. "
              "NOT proved: the generator is ~2700 lines of randomised mutually recursive descent whose termination argument is a "
              "global depth counter threaded through cfg and instance state; no contract within reach of the VC generator "
              "states it. Run-time-error freedom IS discharged (as safety[...] obligations: index in range, key present, "
              "None dereference) for the functions under deductive contract in C19/C16/C15/C06/C07/C14, but that is a small "
              "part of the pipeline. The bounded check runs every stage of the real pipeline per input and reports the "
              "innermost repository frame of any exception, work-budget overruns, and nesting beyond f(d)=2*max(2d+1,d+3). "
              "One genuine defect found and repaired in /repo (TypeParameter.has_bound_of dereferenced a None factory). The try/except shape of hephaestus.gen_program (every stage inside the try; the handler catches Exception, never re-raises, returns a failed ProgramRes) is checked syntactically; bounded additions: the driver's own stage loop (real gen_program through --replay on hand-built programs, --transformations 0..3), the searches on primitive arrays, nesting of Program.get_types() on an all-generic program, reset_word_pool restores the identifier pool, the mutations on the hand-built programs of the C03/C04 harness never raise, candidate combinations of the erasure search are drawn lazily (<= max_combinations + 2 per function)."),
        note="bounded: quick 73 inputs (4 languages x seeds 1-8, depth limits 1-4, 2 switch combinations, max_combinations 1-2, timeout 0); thorough 532 inputs (50 seeds per language, depth limits up to 8, 15 switch combinations); termination is a budget, never proved",
        design='DESIGN.md section 4 (C18)'),
}
