"""dev runner: python3-vt tools/dev.py sidecar1,sidecar2 qual1 qual2 ...   (PYVC_ONLY=regex filters obligations)"""
import os, sys
sys.path.insert(0, os.path.dirname(os.path.dirname(os.path.abspath(__file__))))
from pyvc import driver
E, res = driver.verify(sys.argv[2:], sys.argv[1].split(','), keep_smt=True, timeout_ms=int(os.environ.get('PYVC_TIMEOUT', '10000')))
print(driver.summarize(res))
for fr in res:
    if fr.abstracted:
        print('abstracted:', fr.abstracted)
if os.environ.get('PYVC_DUMP'):
    for fr in res:
        for k, t in fr.smt.items():
            o = fr.obligations[k]
            if o['status'] != 'proved' and o['kind'] == 'proof':
                fn = '/tmp/dump_%s.smt2' % o['name'].replace('/', '_')[-80:]
                open(fn, 'w').write(t)
                print('dumped', fn)
