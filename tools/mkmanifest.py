#!/usr/bin/env python3
"""regenerate MANIFEST.json from tools/manifest_src.py"""
import json, sys, os
sys.path.insert(0, '/verif/tools')
import manifest_src as S
props = [json.loads(l) for l in open('/verif/properties.jsonl')]
checks = []
for pid, c in sorted(S.CHECKS.items()):
    checks.append({
        "property_id": pid,
        "quick_cmd": "./check %s --tier quick" % pid,
        "thorough_cmd": "./check %s --tier thorough" % pid,
        "evidence_file": "evidence/%s.json" % pid,
        "replay_cmd_template": "./check %s --replay {path}" % pid,
        "engine": "pyvc",
        "level_claimed": {"category": c['level'], "text": c['text'], "design_ref": c.get('design', 'DESIGN.md section 4')},
        "level_note": c['note'],
        "technique": c['technique'],
    })
na = [{"property_id": p['id'], "reason": S.NOT_APPLICABLE.get(p['id'], "machinery for this property is not built yet (planned verdict: DESIGN.md section 0)")}
      for p in props if p['id'] not in S.CHECKS]
m = {"version": 1,
     "setup_cmd": "python3-vt -m compileall -q pyvc props specs contracts >/dev/null 2>&1; python3-vt -c 'import z3; print(z3.get_version_string())'",
     "hooks": {"guard": "HEPHAESTUS_VERIF", "enable": "no hooks in /repo are needed: pyvc reads /repo sources with ast on every run and imports the unmodified modules for replays/bounded runs (HEPH_REPO overrides the tree for self-tests)",
               "baseline_off_cmd": "cd /repo && /venv/bin/python -m pytest -ra -q -p no:cacheprovider --timeout=900 --continue-on-collection-errors",
               "source_commits": [], "add_only": True},
     "engines": [{"name": "pyvc", "path": "pyvc", "serves_properties": sorted(S.CHECKS),
                  "kind_free_text": "contract-based deductive verifier built here: VC generator (Python ast of the real /repo source + sidecar contracts in /verif/contracts -> SMT-LIB2), discharged by z3 (E-matching) with cvc5 second opinion; bounded run-time contract evaluation as labelled stand-in"}],
     "checks": checks,
     "notes": S.NOTES,
     "not_applicable": na}
json.dump(m, open('/verif/MANIFEST.json', 'w'), indent=1)
print('claimed', sorted(S.CHECKS), 'n/a', [x['property_id'] for x in na])
